import YarlProofs.C17HeadlineMore
import YarlProofs.C11Encoded
import YarlProofs.C09Bracket
import YarlProofs.C03Idn
/-!
# C17 — port semantics: closing GAPS 2, 4, 5, 6, 7 of `C17Headline.lean`

Property statement (verbatim):

> explicit_port is the integer value of the port written in the URL, which must lie in 0-65535
> (non-numeric or out-of-range ports are rejected with ValueError); port falls back to the scheme default
> (http/ws 80, https/wss 443, ftp 21) only when none is written, and port 0 is distinct from absent.
> str(), host_port_subcomponent and is_default_port() omit or report the port as default exactly when it is
> absent or equals the scheme default; with_port(p) sets any valid p, clears on None, and rejects bools,
> non-integers and out-of-range values.

## GAPS 2 — `pyIntAscii` against Python's `int()` (base 10)
Vocabulary (namespace `Yarl`): `PyWs s` (a run of the ASCII whitespace `int()` strips: 9–13, 28–31, 32),
`PyIntBody b v` (`digit (_? digit)*` with its decimal value), `PyIntForm s v` (`ws* [+-]? body ws*` with the signed
value), `pyStrip` / `pyIntCore` (the two stages of the model's `pyIntAscii`), `EdgeFree` (no whitespace at the ends).
 * `C17_pyInt_spec`            — SPEC, sound and complete, every `s`: `pyIntAscii s = some v ↔ PyIntForm s v`.
 * `C17_digitsUnderscore_spec`, `C17_pyIntBody_props` — the digit scanner accepts exactly `digit (_? digit)*`; a body
   starts and ends with a digit, has digits and '_' only, its value is the decimal value of its digits.
 * `C17_pyInt_core`, `C17_pyInt_strip_exists`, `C17_pyInt_strip_unique` — `int()` depends on the stripped text only;
   the decomposition `ws ++ core ++ ws'` exists and is unique.
 * `C17_pyInt_rejects`         — rejections (on the stripped text): empty / only a sign; leading, trailing, double
   underscore; any non-digit non-'_' character behind the sign or another character (interior whitespace, second
   sign, letters as in "0x50", non-ASCII).  `C17_pyInt_alphabet` — necessary conditions on the WHOLE text.
 * `C17_pyInt_digits`          — plain digit strings: value, leading zeros ("080" = 80), `natToStr` is the canonical
   inverse (`natToStr (value ds)` = `ds` without superfluous leading zeros).
 * `C17_splitNetloc_ascii_port`, `C17_splitNetloc_port_iff`, `C17_portText_after_host`, `C17_portText_plain`,
   `C17_host_port_accepts` — `split_netloc` accepts an ASCII port text `ps` with port `p` iff `int(ps) = p`,
   0 ≤ p ≤ 65535, ValueError otherwise; `C17_port_text_instances` ("+80", " 80 ", "8_0", "080", "-0" accepted;
   "-1", "65536", "8__0", "_80", "80_", "8 0", "0x50", "+-80", "+", " " rejected; "" no port; "８０" via the `intU`
   oracle: `C17_pyInt_non_ascii`).
 * `C17_ctor_netloc_no_tab`    — TAB / LF / CR never reach the port parser through the constructor (`split_url`
   removes them); `C17_ctor_port_whitespace` — space, VT, FF, FS–US do, and are accepted around the digits; a
   TAB / LF / CR inside the digits is removed (`URL("http://h:8\t0/")` has port 80).

## GAPS 4 — "only when none is written"
 * `C17_default_port_table` (complete `DEFAULT_PORTS` table for ALL schemes, computed from the generated table),
   `C17_default_port_none`.
 * `C17_port_default_iff`      — `port = p` iff `p` is written, or nothing is written and `p` is the scheme default.
 * `C17_default_port_build_vs_ctor` (+ `_instances`) — `build(port=default)` drops the port, the constructor keeps it.

## GAPS 5 — `is_default_port()`
 * `C17_is_default_port_iff` (full truth table), `C17_is_default_port_cases` (scheme without default: written port
   → False; ABSENT port with an authority → True — the oddity `URL("foo://h").is_default_port()`; no authority →
   False; relation with `port`), `C17_is_default_port_no_authority`, `C17_is_default_port_instances`.

## GAPS 6 — `with_port` on arbitrary stored authorities
(For URLs without cache most of this is already in `C11Encoded.lean`: `C11_arbitrary_authority_modifiers`,
`C11_arbitrary_authority_frame_with_port`, `C11_arbitrary_authority_split_fails`; here: ANY URL, in terms of `net`,
and the sharpness of the read-back.)
 * `C17_with_port_exact`, `C17_with_port_result` — the exact result / the error passed on, with the order of checks.
 * `C17_with_port_readback` (hypotheses on the raw components only), `C17_lazy_components_ok` (they hold for every
   URL without cache except "host without ':' containing '['"), `C17_with_port_readback_fails` (in that case
   explicit_port reads None: the read-back theorem is sharp — `C17_with_port_readback_lazy_iff`),
   `C17_with_port_encoded_instances`,
   `C17_with_port_readback_counterexample`.

## GAPS 7 — sentence 2 on constructor results outside `AuthInput`
 * `C17_port_views_of_net`     — every port view of ANY URL as a function of its authority components.
 * `C17_ctor_port_views_any`   — EVERY accepted constructor input with an authority (no side condition).
 * `C17_bracket_ctor_port_views` (IPvFuture / bracketed non-IPv6, brackets dropped on re-make when the host has no
   ':'), `C17_empty_host_ctor_port_views`, `C17_idn_ctor_port_views`; `C17_bracket_ctor_instances`,
   `C17_empty_host_ctor_instances`.
-/
namespace Yarl
open NetlocLemmas CtorMods EagerLemmas HeadB

/-! ## Item 2 -/

/-- Python's ASCII whitespace run (what `int()` strips at both ends) -/
def PyWs (s : Str) : Prop := ∀ c ∈ s, isPySpaceC c = true

instance (s : Str) : Decidable (PyWs s) := by unfold PyWs; infer_instance

/-- `digit (_? digit)*` with its decimal value (underscores ignored) -/
inductive PyIntBody : Str → Nat → Prop
  | digit (c : Nat) : isDigitC c = true → PyIntBody [c] (c - 48)
  | snoc (b : Str) (v c : Nat) : PyIntBody b v → isDigitC c = true → PyIntBody (b ++ [c]) (v * 10 + (c - 48))
  | usnoc (b : Str) (v c : Nat) : PyIntBody b v → isDigitC c = true → PyIntBody (b ++ [95, c]) (v * 10 + (c - 48))

/-- the base-10 grammar of Python's `int(str)`: `ws* [+-]? digit (_? digit)* ws*`, with the value -/
def PyIntForm (s : Str) (v : Int) : Prop :=
  ∃ ws1 sign body ws2 n, s = ws1 ++ sign ++ body ++ ws2 ∧ PyWs ws1 ∧ PyWs ws2 ∧
    (sign = [] ∨ sign = [43] ∨ sign = [45]) ∧ PyIntBody body n ∧
    v = if sign = [45] then - Int.ofNat n else Int.ofNat n

/-- `s.strip()` as `int()` applies it (the model's own expression) -/
def pyStrip (s : Str) : Str :=
  (lstripSet ((List.range 128).filter isPySpaceC)
    (lstripSet ((List.range 128).filter isPySpaceC) s).reverse).reverse

/-- `int()` on a stripped text: optional sign, then digits with single interior underscores -/
def pyIntCore (r : Str) : Option Int :=
  match r with
  | [] => none
  | 43 :: r => (digitsUnderscore r none false).map Int.ofNat
  | 45 :: r => (digitsUnderscore r none false).map (fun n => - Int.ofNat n)
  | r => (digitsUnderscore r none false).map Int.ofNat

/-- no whitespace at either end -/
def EdgeFree (r : Str) : Prop :=
  (∀ c, r.head? = some c → isPySpaceC c = false) ∧ (∀ c, r.getLast? = some c → isPySpaceC c = false)

instance (r : Str) : Decidable (EdgeFree r) :=
  decidable_of_iff (r.head?.all (fun c => !isPySpaceC c) = true ∧ r.getLast?.all (fun c => !isPySpaceC c) = true)
    (by unfold EdgeFree; cases r.head? <;> cases r.getLast? <;> simp)

namespace R9c17

theorem mem_W (c : Nat) : mem c ((List.range 128).filter isPySpaceC) = isPySpaceC c := by
  rw [ParseLemmas.mem_eq]
  by_cases h : isPySpaceC c = true
  · have : c < 128 := by unfold isPySpaceC at h; simp at h; omega
    simp [h, this]
  · simp [h]

theorem lstrip_ws_append (ws r : Str) (hws : PyWs ws) :
    lstripSet ((List.range 128).filter isPySpaceC) (ws ++ r) = lstripSet ((List.range 128).filter isPySpaceC) r := by
  induction ws with
  | nil => rfl
  | cons x xs ih =>
    have hx : isPySpaceC x = true := hws x (by simp)
    simp only [List.cons_append, lstripSet, mem_W, hx, if_true]
    exact ih (fun c hc => hws c (by simp [hc]))

theorem lstrip_head (r : Str) (h : ∀ c, r.head? = some c → isPySpaceC c = false) :
    lstripSet ((List.range 128).filter isPySpaceC) r = r := by
  cases r with
  | nil => rfl
  | cons x xs => simp [lstripSet, mem_W, h x rfl]

theorem lstrip_all_ws (ws : Str) (hws : PyWs ws) : lstripSet ((List.range 128).filter isPySpaceC) ws = [] := by
  have := lstrip_ws_append ws [] hws
  simpa [lstripSet] using this

theorem pyStrip_sandwich (ws1 core ws2 : Str) (h1 : PyWs ws1) (h2 : PyWs ws2) (hc : EdgeFree core) :
    pyStrip (ws1 ++ core ++ ws2) = core := by
  unfold pyStrip
  rw [List.append_assoc, lstrip_ws_append _ _ h1]
  by_cases hnil : core = []
  · subst hnil
    simp only [List.nil_append]
    rw [lstrip_all_ws ws2 h2]
    rfl
  · rw [lstrip_head (core ++ ws2)]
    · rw [List.reverse_append, lstrip_ws_append _ _ (fun c hc => h2 c (by simpa using hc)),
        lstrip_head, List.reverse_reverse]
      intro c hcc
      rw [List.head?_reverse] at hcc
      exact hc.2 c hcc
    · intro c hcc
      cases core with
      | nil => exact absurd rfl hnil
      | cons x xs => exact hc.1 c (by simpa using hcc)

/-- what `lstrip` leaves: a whitespace prefix was removed and the rest does not start with whitespace -/
theorem lstrip_spec (s : Str) :
    ∃ ws, s = ws ++ lstripSet ((List.range 128).filter isPySpaceC) s ∧ PyWs ws ∧
      ∀ c, (lstripSet ((List.range 128).filter isPySpaceC) s).head? = some c → isPySpaceC c = false := by
  induction s with
  | nil => exact ⟨[], rfl, (fun c hc => by cases hc), (fun c hc => by cases hc)⟩
  | cons x xs ih =>
    by_cases hx : isPySpaceC x = true
    · obtain ⟨ws, e, hw, hh⟩ := ih
      refine ⟨x :: ws, ?_, ?_, ?_⟩
      · simp only [lstripSet, mem_W, hx, if_true, List.cons_append]; rw [← e]
      · intro c hc
        rcases List.mem_cons.1 hc with rfl | hc
        · exact hx
        · exact hw c hc
      · simpa only [lstripSet, mem_W, hx, if_true] using hh
    · have hx' : isPySpaceC x = false := by simpa using hx
      have e : lstripSet ((List.range 128).filter isPySpaceC) (x :: xs) = x :: xs := by
        simp [lstripSet, mem_W, hx']
      refine ⟨[], (by rw [e]; rfl), (fun c hc => by cases hc), ?_⟩
      rw [e]
      intro c hc; simp at hc; subst hc; exact hx'

theorem pyStrip_spec (s : Str) :
    ∃ ws1 ws2, s = ws1 ++ pyStrip s ++ ws2 ∧ PyWs ws1 ∧ PyWs ws2 ∧ EdgeFree (pyStrip s) := by
  obtain ⟨ws1, e1, hw1, hh1⟩ := lstrip_spec s
  obtain ⟨ws2r, e2, hw2, hh2⟩ := lstrip_spec (lstripSet ((List.range 128).filter isPySpaceC) s).reverse
  have e2' := congrArg List.reverse e2
  rw [List.reverse_reverse, List.reverse_append] at e2'
  refine ⟨ws1, ws2r.reverse, ?_, hw1, fun c hc => hw2 c (by simpa using hc), ?_, ?_⟩
  · unfold pyStrip
    rw [List.append_assoc, ← e2']
    exact e1
  · intro c hc
    unfold pyStrip at hc
    -- head of the stripped text: either the text is the lstrip result minus a suffix
    by_cases hnil : (lstripSet ((List.range 128).filter isPySpaceC)
        (lstripSet ((List.range 128).filter isPySpaceC) s).reverse).reverse = []
    · rw [hnil] at hc; cases hc
    · apply hh1 c
      rw [e2']
      revert hc hnil
      generalize (lstripSet ((List.range 128).filter isPySpaceC)
        (lstripSet ((List.range 128).filter isPySpaceC) s).reverse).reverse = A
      intro hc hnil
      cases A with
      | nil => exact absurd rfl hnil
      | cons a t => simpa using hc
  · intro c hc
    unfold pyStrip at hc
    rw [List.getLast?_reverse] at hc
    exact hh2 c hc

/-! ### `digitsUnderscore` -/

theorem du_body (b : Str) (v : Nat) (hb : PyIntBody b v) (rest : Str) :
    digitsUnderscore (b ++ rest) none false = digitsUnderscore rest (some v) false := by
  induction hb generalizing rest with
  | digit c hc => simp [digitsUnderscore, hc]
  | snoc b v c _ hc ih =>
    rw [List.append_assoc, ih]
    simp [digitsUnderscore, hc]
  | usnoc b v c _ hc ih =>
    rw [List.append_assoc, ih]
    have h95 : isDigitC 95 = false := by decide
    simp [digitsUnderscore, hc, h95]

theorem du_body_value (b : Str) (v : Nat) (hb : PyIntBody b v) : digitsUnderscore b none false = some v := by
  have := du_body b v hb []
  simpa [digitsUnderscore] using this

/-- the parser state after a prefix `p` -/
def St (p : Str) (acc : Option Nat) (lastU : Bool) : Prop :=
  match acc, lastU with
  | none, false => p = []
  | none, true => False
  | some a, false => PyIntBody p a
  | some a, true => ∃ p', p = p' ++ [95] ∧ PyIntBody p' a

theorem du_complete (rest : Str) : ∀ (p : Str) (acc : Option Nat) (lastU : Bool) (v : Nat),
    St p acc lastU → digitsUnderscore rest acc lastU = some v → PyIntBody (p ++ rest) v := by
  induction rest with
  | nil =>
    intro p acc lastU v hst h
    cases lastU with
    | true => simp [digitsUnderscore] at h
    | false =>
      simp only [digitsUnderscore, Bool.false_eq_true, if_false] at h
      subst h
      simpa [St] using hst
  | cons c cs ih =>
    intro p acc lastU v hst h
    unfold digitsUnderscore at h
    by_cases hc : isDigitC c = true
    · rw [if_pos hc] at h
      have hst' : St (p ++ [c]) (some (acc.getD 0 * 10 + (c - 48))) false := by
        cases acc with
        | none =>
          cases lastU with
          | true => exact hst.elim
          | false =>
            have : p = [] := hst
            subst this
            simpa [St] using PyIntBody.digit c hc
        | some a =>
          cases lastU with
          | false => exact PyIntBody.snoc p a c hst hc
          | true =>
            obtain ⟨p', e, hb⟩ := hst
            subst e
            have := PyIntBody.usnoc p' a c hb hc
            simpa [St] using this
      have := ih (p ++ [c]) _ false v hst' h
      simpa using this
    · rw [if_neg hc] at h
      by_cases h95 : c = 95
      · rw [if_pos h95] at h
        subst h95
        cases acc with
        | none => cases h
        | some a =>
          cases lastU with
          | true => simp at h
          | false =>
            simp only [Bool.false_eq_true, if_false] at h
            have hst' : St (p ++ [95]) (some a) true := ⟨p, rfl, hst⟩
            have := ih (p ++ [95]) _ true v hst' h
            simpa using this
      · rw [if_neg h95] at h; cases h

theorem du_iff (b : Str) (v : Nat) : digitsUnderscore b none false = some v ↔ PyIntBody b v :=
  ⟨fun h => by simpa using du_complete b [] none false v rfl h, du_body_value b v⟩

/-! ### properties of a body -/

theorem body_ends (b : Str) (v : Nat) (hb : PyIntBody b v) :
    (∃ c t, b = c :: t ∧ isDigitC c = true) ∧ (∃ c, b.getLast? = some c ∧ isDigitC c = true) := by
  induction hb with
  | digit c hc => exact ⟨⟨c, [], rfl, hc⟩, ⟨c, rfl, hc⟩⟩
  | snoc b v c _ hc ih =>
    obtain ⟨⟨d, t, e, hd⟩, _⟩ := ih
    exact ⟨⟨d, t ++ [c], by rw [e]; rfl, hd⟩, ⟨c, by simp, hc⟩⟩
  | usnoc b v c _ hc ih =>
    obtain ⟨⟨d, t, e, hd⟩, _⟩ := ih
    refine ⟨⟨d, t ++ [95, c], by rw [e]; rfl, hd⟩, ⟨c, ?_, hc⟩⟩
    rw [show b ++ [95, c] = (b ++ [95]) ++ [c] by simp]
    exact List.getLast?_concat ..

theorem body_chars (b : Str) (v : Nat) (hb : PyIntBody b v) : ∀ c ∈ b, isDigitC c = true ∨ c = 95 := by
  induction hb with
  | digit c hc => intro x hx; simp at hx; subst hx; exact Or.inl hc
  | snoc b v c _ hc ih =>
    intro x hx
    rcases List.mem_append.1 hx with h | h
    · exact ih x h
    · simp at h; subst h; exact Or.inl hc
  | usnoc b v c _ hc ih =>
    intro x hx
    rcases List.mem_append.1 hx with h | h
    · exact ih x h
    · simp at h
      rcases h with rfl | rfl
      · exact Or.inr rfl
      · exact Or.inl hc

/-- the value is the decimal value of the digits, underscores dropped -/
theorem body_value (b : Str) (v : Nat) (hb : PyIntBody b v) : v = dv 0 (b.filter isDigitC) := by
  induction hb with
  | digit c hc => simp [hc, dv]
  | snoc b v c _ hc ih =>
    simp only [List.filter_append, List.filter_cons, hc, if_true, List.filter_nil]
    unfold dv at ih ⊢
    rw [List.foldl_append, ← ih]; rfl
  | usnoc b v c _ hc ih =>
    have h95 : isDigitC 95 = false := by decide
    simp only [List.filter_append, List.filter_cons, hc, h95, if_true, List.filter_nil]
    unfold dv at ih ⊢
    rw [List.foldl_append, ← ih]; rfl

theorem digit_not_ws {c : Nat} (h : isDigitC c = true) : isPySpaceC c = false := by
  unfold isDigitC at h; unfold isPySpaceC; simp at h ⊢; omega

theorem pyIntCore_digit (c : Nat) (t : Str) (hc : isDigitC c = true) :
    pyIntCore (c :: t) = (digitsUnderscore (c :: t) none false).map Int.ofNat := by
  have hc' : 48 ≤ c ∧ c ≤ 57 := by unfold isDigitC at hc; simpa using hc
  unfold pyIntCore
  split
  · rename_i heq; cases heq
  · rename_i heq; cases heq; omega
  · rename_i heq; cases heq; omega
  · rfl

/-- an unsigned stripped text (first character not a sign) -/
theorem pyIntCore_unsigned (r : Str) (h43 : r.head? ≠ some 43) (h45 : r.head? ≠ some 45) :
    pyIntCore r = (digitsUnderscore r none false).map Int.ofNat := by
  unfold pyIntCore
  split
  · rfl
  · simp at h43
  · simp at h45
  · rfl

end R9c17
open R9c17

/-- `int()` looks at the stripped text only -/
theorem C17_pyInt_core (s : Str) : pyIntAscii s = pyIntCore (pyStrip s) := rfl

/-- every text is `ws ++ core ++ ws'` with `core = pyStrip s` free of whitespace at both ends … -/
theorem C17_pyInt_strip_exists (s : Str) :
    ∃ ws1 ws2, s = ws1 ++ pyStrip s ++ ws2 ∧ PyWs ws1 ∧ PyWs ws2 ∧ EdgeFree (pyStrip s) :=
  pyStrip_spec s

/-- … and that decomposition is the only one -/
theorem C17_pyInt_strip_unique (ws1 core ws2 : Str) (h1 : PyWs ws1) (h2 : PyWs ws2) (hc : EdgeFree core) :
    pyStrip (ws1 ++ core ++ ws2) = core ∧ pyIntAscii (ws1 ++ core ++ ws2) = pyIntCore core := by
  have := pyStrip_sandwich ws1 core ws2 h1 h2 hc
  exact ⟨this, by rw [C17_pyInt_core, this]⟩

/-- the digit scanner accepts exactly `digit (_? digit)*` -/
theorem C17_digitsUnderscore_spec (b : Str) (v : Nat) :
    digitsUnderscore b none false = some v ↔ PyIntBody b v := du_iff b v

/-- a body starts and ends with a digit, consists of digits and '_' only, and its value is the decimal value of
    its digits -/
theorem C17_pyIntBody_props (b : Str) (v : Nat) (hb : PyIntBody b v) :
    (∃ c t, b = c :: t ∧ isDigitC c = true) ∧ (∃ c, b.getLast? = some c ∧ isDigitC c = true) ∧
    (∀ c ∈ b, isDigitC c = true ∨ c = 95) ∧ v = dv 0 (b.filter isDigitC) :=
  ⟨(body_ends b v hb).1, (body_ends b v hb).2, body_chars b v hb, body_value b v hb⟩

/-- GAPS 2, the SPEC of `pyIntAscii` (soundness and completeness, every `s`, ASCII or not):
    `int(s)` succeeds with value `v` iff `s` is `ws* [+-]? digit (_? digit)* ws*` with that value -/
theorem C17_pyInt_spec (s : Str) (v : Int) : pyIntAscii s = some v ↔ PyIntForm s v := by
  constructor
  · intro h
    obtain ⟨ws1, ws2, e, hw1, hw2, hef⟩ := pyStrip_spec s
    rw [C17_pyInt_core] at h
    generalize pyStrip s = core at e hef h
    unfold pyIntCore at h
    split at h
    · cases h
    · rename_i r
      cases hd : digitsUnderscore r none false with
      | none => rw [hd] at h; cases h
      | some n =>
        rw [hd] at h; simp at h
        exact ⟨ws1, [43], r, ws2, n, by rw [e]; simp, hw1, hw2, Or.inr (Or.inl rfl), (du_iff r n).1 hd,
          by simp [← h]⟩
    · rename_i r
      cases hd : digitsUnderscore r none false with
      | none => rw [hd] at h; cases h
      | some n =>
        rw [hd] at h; simp at h
        exact ⟨ws1, [45], r, ws2, n, by rw [e]; simp, hw1, hw2, Or.inr (Or.inr rfl), (du_iff r n).1 hd,
          by simp [← h]⟩
    · cases hd : digitsUnderscore core none false with
      | none => rw [hd] at h; cases h
      | some n =>
        rw [hd] at h; simp at h
        exact ⟨ws1, [], core, ws2, n, by rw [e]; simp, hw1, hw2, Or.inl rfl, (du_iff core n).1 hd,
          by simp [← h]⟩
  · rintro ⟨ws1, sign, body, ws2, n, e, hw1, hw2, hs, hb, hv⟩
    obtain ⟨⟨c, t, eb, hc⟩, ⟨l, hl, hld⟩⟩ := body_ends body n hb
    have hlast : ∀ x, (sign ++ body).getLast? = some x → isPySpaceC x = false := by
      intro x hx
      rw [List.getLast?_append, hl] at hx
      simp at hx; subst hx; exact digit_not_ws hld
    have hd := du_body_value body n hb
    rw [e, List.append_assoc ws1 sign body]
    rcases hs with rfl | rfl | rfl
    · have hef : EdgeFree ([] ++ body) := ⟨by
        intro x hx; rw [eb] at hx; simp at hx; subst hx; exact digit_not_ws hc, hlast⟩
      rw [(C17_pyInt_strip_unique ws1 _ ws2 hw1 hw2 hef).2, List.nil_append, eb, pyIntCore_digit c t hc, ← eb, hd,
        hv]
      simp
    · have hef : EdgeFree ([43] ++ body) := ⟨by intro x hx; simp at hx; subst hx; decide, hlast⟩
      rw [(C17_pyInt_strip_unique ws1 _ ws2 hw1 hw2 hef).2, hv]
      show (digitsUnderscore body none false).map Int.ofNat = _
      rw [hd]; simp
    · have hef : EdgeFree ([45] ++ body) := ⟨by intro x hx; simp at hx; subst hx; decide, hlast⟩
      rw [(C17_pyInt_strip_unique ws1 _ ws2 hw1 hw2 hef).2, hv]
      show (digitsUnderscore body none false).map (fun n => - Int.ofNat n) = _
      rw [hd]; simp

namespace R9c17

/-! ### rejection at the scanner level -/

theorem du_append_none (t : Str) (ht : ∀ acc lu, digitsUnderscore t acc lu = none) (a : Str) :
    ∀ acc lu, digitsUnderscore (a ++ t) acc lu = none := by
  induction a with
  | nil => exact ht
  | cons c cs ih =>
    intro acc lu
    simp only [List.cons_append]
    unfold digitsUnderscore
    split
    · exact ih _ _
    · split
      · cases acc with
        | none => rfl
        | some x =>
          simp only
          split
          · rfl
          · exact ih _ _
      · rfl

theorem du_bad_char (c : Nat) (r : Str) (hc : isDigitC c = false) (h95 : c ≠ 95) :
    ∀ acc lu, digitsUnderscore (c :: r) acc lu = none := by
  intro acc lu; unfold digitsUnderscore; simp [hc, h95]

theorem du_trailing_us : ∀ acc lu, digitsUnderscore [95] acc lu = none := by
  intro acc lu
  cases acc <;> cases lu <;> simp [digitsUnderscore, show isDigitC 95 = false by decide]

theorem du_double_us (r : Str) : ∀ acc lu, digitsUnderscore (95 :: 95 :: r) acc lu = none := by
  intro acc lu
  cases acc <;> cases lu <;> simp [digitsUnderscore, show isDigitC 95 = false by decide]

theorem pyIntCore_sign (sign t : Str) (hs : sign = [43] ∨ sign = [45]) :
    pyIntCore (sign ++ t) = none ↔ digitsUnderscore t none false = none := by
  rcases hs with rfl | rfl
  · show (digitsUnderscore t none false).map Int.ofNat = none ↔ _
    simp
  · show (digitsUnderscore t none false).map (fun n => - Int.ofNat n) = none ↔ _
    simp

theorem pyIntCore_none_of_tail (X : Str) (h : ∀ acc lu, digitsUnderscore X acc lu = none)
    (ht : (X.head? = some 43 ∨ X.head? = some 45) → ∀ acc lu, digitsUnderscore X.tail acc lu = none) :
    pyIntCore X = none := by
  unfold pyIntCore
  split
  · rfl
  · simp only [List.tail_cons] at ht; rw [ht (Or.inl rfl)]; rfl
  · simp only [List.tail_cons] at ht; rw [ht (Or.inr rfl)]; rfl
  · rw [h]; rfl

end R9c17

/-- GAPS 2, rejections (on the stripped text `core`; `pyIntAscii s = pyIntCore (pyStrip s)`, and
    `pyIntAscii (ws ++ core ++ ws') = pyIntCore core` for a `core` without whitespace at its ends):
    `sign` is "", "+" or "-".  Rejected: nothing / only a sign; a leading, a trailing, a double underscore; any
    character that is neither a digit nor '_' behind the sign or behind another character (interior whitespace, a
    second sign, a letter as in "0x50", any non-ASCII character). -/
theorem C17_pyInt_rejects (sign : Str) (hs : sign = [] ∨ sign = [43] ∨ sign = [45]) :
    pyIntCore sign = none ∧
    (∀ r, pyIntCore (sign ++ 95 :: r) = none) ∧
    (∀ a, pyIntCore (sign ++ a ++ [95]) = none) ∧
    (∀ a r, pyIntCore (sign ++ a ++ 95 :: 95 :: r) = none) ∧
    (∀ a c r, isDigitC c = false → c ≠ 95 → (sign ≠ [] ∨ a ≠ [] ∨ (c ≠ 43 ∧ c ≠ 45)) →
      pyIntCore (sign ++ a ++ c :: r) = none) := by
  have key : ∀ t, (∀ acc lu, digitsUnderscore t acc lu = none) →
      (sign = [] → (t.head? = some 43 ∨ t.head? = some 45) → ∀ acc lu, digitsUnderscore t.tail acc lu = none) →
      pyIntCore (sign ++ t) = none := by
    intro t ht htl
    rcases hs with rfl | h | h
    · exact pyIntCore_none_of_tail t ht (htl rfl)
    · exact (pyIntCore_sign sign t (Or.inl h)).2 (ht _ _)
    · exact (pyIntCore_sign sign t (Or.inr h)).2 (ht _ _)
  refine ⟨?_, ?_, ?_, ?_, ?_⟩
  · rcases hs with rfl | rfl | rfl <;> rfl
  · intro r
    have h0 : pyIntCore (95 :: r) = none := by
      show (digitsUnderscore (95 :: r) none false).map Int.ofNat = none
      simp [digitsUnderscore, show isDigitC 95 = false by decide]
    rcases hs with rfl | h | h
    · exact h0
    · refine (pyIntCore_sign sign _ (Or.inl h)).2 ?_
      simp [digitsUnderscore, show isDigitC 95 = false by decide]
    · refine (pyIntCore_sign sign _ (Or.inr h)).2 ?_
      simp [digitsUnderscore, show isDigitC 95 = false by decide]
  · intro a
    rw [List.append_assoc]
    refine key _ (du_append_none _ du_trailing_us a) (fun _ hh => ?_)
    cases a with
    | nil => simp at hh
    | cons x xs => exact du_append_none _ du_trailing_us xs
  · intro a r
    rw [List.append_assoc]
    refine key _ (du_append_none _ (du_double_us r) a) (fun _ hh => ?_)
    cases a with
    | nil => simp at hh
    | cons x xs => exact du_append_none _ (du_double_us r) xs
  · intro a c r hc h95 hcond
    rw [List.append_assoc]
    rcases hs with rfl | h | h
    · simp only [List.nil_append]
      cases a with
      | nil =>
        have hc' : c ≠ 43 ∧ c ≠ 45 := by
          rcases hcond with h | h | h
          · exact absurd rfl h
          · exact absurd rfl h
          · exact h
        simp only [List.nil_append]
        rw [pyIntCore_unsigned _ (by simp [hc'.1]) (by simp [hc'.2]), du_bad_char c r hc h95]; rfl
      | cons x xs =>
        exact pyIntCore_none_of_tail _ (du_append_none _ (du_bad_char c r hc h95) (x :: xs))
          (fun _ => du_append_none _ (du_bad_char c r hc h95) xs)
    · exact (pyIntCore_sign sign _ (Or.inl h)).2 (du_append_none _ (du_bad_char c r hc h95) a _ _)
    · exact (pyIntCore_sign sign _ (Or.inr h)).2 (du_append_none _ (du_bad_char c r hc h95) a _ _)

/-- necessary conditions on the WHOLE text: an accepted text has a digit and consists of digits, '_', '+', '-' and
    ASCII whitespace only (so a letter or a non-ASCII character anywhere is fatal) -/
theorem C17_pyInt_alphabet (s : Str) (v : Int) (h : pyIntAscii s = some v) :
    (∃ c ∈ s, isDigitC c = true) ∧
    (∀ c ∈ s, isDigitC c = true ∨ c = 95 ∨ c = 43 ∨ c = 45 ∨ isPySpaceC c = true) ∧ isAscii s = true := by
  obtain ⟨ws1, sign, body, ws2, n, e, hw1, hw2, hs, hb, _⟩ := (C17_pyInt_spec s v).1 h
  obtain ⟨⟨c, t, eb, hc⟩, _, hch, _⟩ := C17_pyIntBody_props body n hb
  have hall : ∀ c ∈ s, isDigitC c = true ∨ c = 95 ∨ c = 43 ∨ c = 45 ∨ isPySpaceC c = true := by
    intro x hx
    rw [e] at hx
    simp only [List.mem_append] at hx
    rcases hx with ((hx | hx) | hx) | hx
    · exact Or.inr (Or.inr (Or.inr (Or.inr (hw1 x hx))))
    · rcases hs with rfl | rfl | rfl
      · cases hx
      · simp at hx; exact Or.inr (Or.inr (Or.inl hx))
      · simp at hx; exact Or.inr (Or.inr (Or.inr (Or.inl hx)))
    · rcases hch x hx with h | h
      · exact Or.inl h
      · exact Or.inr (Or.inl h)
    · exact Or.inr (Or.inr (Or.inr (Or.inr (hw2 x hx))))
  refine ⟨⟨c, by rw [e, eb]; simp, hc⟩, hall, ?_⟩
  unfold isAscii
  rw [List.all_eq_true]
  intro x hx
  have := hall x hx
  unfold isDigitC isPySpaceC at this
  simp at this ⊢
  omega

/-! ### (b) plain digit strings -/
namespace R9c17

theorem dv_zero (ds : Str) : dv 0 (48 :: ds) = dv 0 ds := by simp [dv]

theorem dv_ge (ds : Str) (a : Nat) : a ≤ dv a ds := by
  induction ds generalizing a with
  | nil => simp [dv]
  | cons c cs ih =>
    have := ih (a * 10 + (c - 48))
    unfold dv at this ⊢
    simp only [List.foldl_cons]
    omega

theorem dv_snoc (a : Nat) (ds : Str) (c : Nat) : dv a (ds ++ [c]) = dv a ds * 10 + (c - 48) := by
  simp [dv, List.foldl_append]

theorem aux_indep : ∀ (f1 f2 n : Nat), n ≤ f1 → n ≤ f2 → natToStrAux f1 n = natToStrAux f2 n := by
  intro f1
  induction f1 with
  | zero =>
    intro f2 n h1 _
    have : n = 0 := by omega
    subst this
    cases f2 <;> simp [natToStrAux]
  | succ f ih =>
    intro f2 n h1 h2
    cases f2 with
    | zero =>
      have : n = 0 := by omega
      subst this
      simp [natToStrAux]
    | succ g =>
      simp only [natToStrAux]
      split
      · rfl
      · rw [ih g (n / 10) (by omega) (by omega)]

theorem natToStr_step (n : Nat) :
    natToStr n = if n < 10 then [48 + n] else natToStr (n / 10) ++ [48 + n % 10] := by
  unfold natToStr
  cases n with
  | zero => simp [natToStrAux]
  | succ m =>
    simp only [natToStrAux]
    split
    · rfl
    · rw [aux_indep m ((m + 1) / 10) ((m + 1) / 10) (by omega) (Nat.le_refl _)]

/-- a digit string without superfluous leading zero is what `str(int)` prints for its value -/
theorem natToStr_dv_rev (rs : Str) : ∀ ds, ds = rs.reverse → (∀ c ∈ ds, isDigitC c = true) → ds ≠ [] →
    (ds = [48] ∨ ds.head? ≠ some 48) → natToStr (dv 0 ds) = ds := by
  induction rs with
  | nil => intro ds e _ hne; subst e; exact absurd rfl hne
  | cons c rinit ih =>
    intro ds e hd hne hc
    rw [List.reverse_cons] at e
    subst e
    generalize hinit : rinit.reverse = init at *
    have ih := ih init rfl
    have hcd : isDigitC c = true := hd c (by simp)
    have hc' : 48 ≤ c ∧ c ≤ 57 := by unfold isDigitC at hcd; simpa using hcd
    rw [dv_snoc, natToStr_step]
    cases init with
    | nil =>
      have e0 : dv 0 [] = 0 := rfl
      rw [e0, if_pos (by omega)]
      simp only [List.nil_append]
      congr 1; omega
    | cons x xs =>
      have hx : isDigitC x = true := hd x (by simp)
      have hx' : 48 ≤ x ∧ x ≤ 57 := by unfold isDigitC at hx; simpa using hx
      have hx48 : x ≠ 48 := by
        rcases hc with h | h
        · simp at h
        · simpa using h
      have hge : 1 ≤ dv 0 (x :: xs) := by
        have := dv_ge xs (0 * 10 + (x - 48))
        have e : dv 0 (x :: xs) = dv (0 * 10 + (x - 48)) xs := by simp [dv]
        omega
      rw [if_neg (by omega)]
      have e1 : (dv 0 (x :: xs) * 10 + (c - 48)) / 10 = dv 0 (x :: xs) := by omega
      have e2 : (dv 0 (x :: xs) * 10 + (c - 48)) % 10 = c - 48 := by omega
      rw [e1, e2, ih (fun y hy => hd y (by
          rcases List.mem_cons.1 hy with h | h
          · simp [h]
          · simp [h])) (by simp) (Or.inr (by simpa using hx48))]
      congr 2; omega

theorem natToStr_dv (ds : Str) (hd : ∀ c ∈ ds, isDigitC c = true) (hne : ds ≠ [])
    (hc : ds = [48] ∨ ds.head? ≠ some 48) : natToStr (dv 0 ds) = ds :=
  natToStr_dv_rev ds.reverse ds (by simp) hd hne hc

theorem dv_dropZeros (ds : Str) : dv 0 ds = dv 0 (ds.dropWhile (· = 48)) := by
  induction ds with
  | nil => rfl
  | cons x xs ih =>
    by_cases hx : x = 48
    · subst hx; rw [dv_zero, ih]; simp
    · simp [hx]

end R9c17

/-- GAPS 2 (b): a plain, non-empty digit string reads as its decimal value — leading zeros allowed
    (`int("080") = 80`: zeros in front do not change the value) — and `natToStr` (`str(int)`) is the canonical
    inverse: it parses back to the number, and for EVERY digit string it returns the text without its superfluous
    leading zeros (the text itself iff it has none). -/
theorem C17_pyInt_digits (ds : Str) (hne : ds ≠ []) (hd : ∀ c ∈ ds, isDigitC c = true) :
    pyIntAscii ds = some (Int.ofNat (dv 0 ds)) ∧
    PyIntBody ds (dv 0 ds) ∧
    (∀ k, dv 0 (List.replicate k 48 ++ ds) = dv 0 ds) ∧
    (∀ p, pyIntAscii (natToStr p) = some (Int.ofNat p)) ∧
    natToStr (dv 0 ds) = (if ds.dropWhile (· = 48) = [] then [48] else ds.dropWhile (· = 48)) ∧
    ((ds = [48] ∨ ds.head? ≠ some 48) → natToStr (dv 0 ds) = ds) := by
  have h1 := pyIntAscii_digits ds hne hd
  refine ⟨h1, ?_, ?_, natToStr_roundtrip, ?_, natToStr_dv ds hd hne⟩
  · apply (C17_digitsUnderscore_spec ds _).1
    exact digitsUnderscore_none ds hne hd
  · intro k
    induction k with
    | zero => rfl
    | succ k ih => rw [List.replicate_succ, List.cons_append, dv_zero, ih]
  · rw [dv_dropZeros]
    split
    · rename_i h0; rw [h0]; rfl
    · rename_i h0
      apply natToStr_dv _ _ h0
      · right
        intro hh
        cases hdw : ds.dropWhile (· = 48) with
        | nil => exact h0 hdw
        | cons y ys =>
          rw [hdw] at hh
          simp at hh
          have := List.head_dropWhile_not (p := (· = 48)) (l := ds) (by rw [hdw]; simp)
          simp [hdw, hh] at this
      · intro c hc
        exact hd c (List.IsSuffix.mem hc (List.dropWhile_suffix _) |> fun h => h)

/-! ### (c) which port texts `split_netloc` accepts -/

/-- `split_netloc` on an authority with a non-empty ASCII port text, as an equation: the port text goes through
    `int()`; a value in 0–65535 is the port, everything else is ValueError -/
theorem C17_splitNetloc_ascii_port (o : Oracles) (n : Str) (hne : portText n ≠ [])
    (hasc : isAscii (portText n) = true) :
    splitNetloc o n =
      match pyIntAscii (portText n) with
      | some v =>
        if 0 ≤ v ∧ v ≤ 65535 then
          .ok { user := (ParseLemmas.userTriple n).1.bind orNone, password := (ParseLemmas.userTriple n).2.1,
                host := orNone (ParseLemmas.hostPort (ParseLemmas.userTriple n).2.2).1, port := some v.toNat }
        else .error .valueError
      | none => .error .valueError := by
  rw [ParseLemmas.splitNetloc_eq]
  change ParseLemmas.netlocRest o _ _ _ (portText n) = _
  unfold ParseLemmas.netlocRest
  have hne' : (portText n).isEmpty = false := by cases hp : portText n <;> simp_all
  simp only [hne', Bool.false_eq_true, if_false]
  unfold pyInt
  rw [if_pos hasc]
  cases pyIntAscii (portText n) with
  | none => rfl
  | some v =>
    simp only [bind, Except.bind]
    split <;> rfl

/-- GAPS 2 (c): acceptance of a non-empty ASCII port text, as an equivalence -/
theorem C17_splitNetloc_port_iff (o : Oracles) (n : Str) (hne : portText n ≠ [])
    (hasc : isAscii (portText n) = true) (p : Nat) :
    ((∃ np, splitNetloc o n = .ok np ∧ np.port = some p) ↔
      ∃ v : Int, pyIntAscii (portText n) = some v ∧ 0 ≤ v ∧ v ≤ 65535 ∧ v.toNat = p) ∧
    ((∀ np, splitNetloc o n ≠ .ok np) ↔
      (pyIntAscii (portText n) = none ∨ ∃ v, pyIntAscii (portText n) = some v ∧ ¬ (0 ≤ v ∧ v ≤ 65535))) ∧
    ((∀ np, splitNetloc o n ≠ .ok np) → splitNetloc o n = .error .valueError) := by
  rw [C17_splitNetloc_ascii_port o n hne hasc]
  cases pyIntAscii (portText n) with
  | none => simp
  | some v =>
    by_cases hr : 0 ≤ v ∧ v ≤ 65535
    · simp only [hr, and_self, if_true]
      refine ⟨⟨?_, ?_⟩, ?_, ?_⟩
      · rintro ⟨np, h1, h2⟩
        cases h1
        simp at h2
        exact ⟨v, rfl, hr.1, hr.2, h2⟩
      · rintro ⟨w, h1, _, _, h4⟩
        cases h1
        exact ⟨_, rfl, by simp [h4]⟩
      · simp [hr]
      · intro h; exact absurd rfl (h _)
    · simp only [hr, if_false]
      refine ⟨⟨?_, ?_⟩, ?_, ?_⟩
      · rintro ⟨np, h1, _⟩; cases h1
      · rintro ⟨w, h1, h2, h3, _⟩; cases h1; exact absurd ⟨h2, h3⟩ hr
      · simp only [ne_eq, reduceCtorEq, not_false_eq_true, implies_true, Option.some.injEq, exists_eq_left',
          true_iff]
        exact Or.inr hr
      · intro _; trivial

/-- a non-ASCII port text (e.g. full-width digits "８０") is not computed in the model: it is the `intU` oracle's
    answer (Python's `int()` accepts every Unicode decimal digit), asked with the port text itself -/
theorem C17_pyInt_non_ascii (o : Oracles) (ps : Str) (h : isAscii ps = false) :
    pyInt o ps = ask "intU" ps (o.intU ps) := by
  unfold pyInt; simp [h]

namespace R9c17
theorem hostPort_eq (x : Str) : ParseLemmas.hostPort x = NetlocLemmas.hostPort x := rfl

theorem userTriple_noAt (n : Str) (h : 64 ∉ n) : (ParseLemmas.userTriple n).2.2 = n := by
  unfold ParseLemmas.userTriple; simp [mem_false_iff.mpr h]

theorem userTriple_at (ui hi : Str) (h : 64 ∉ hi) : (ParseLemmas.userTriple (ui ++ 64 :: hi)).2.2 = hi := by
  have hm : mem 64 (ui ++ 64 :: hi) = true := mem_iff.mpr (by simp)
  unfold ParseLemmas.userTriple
  simp [hm, rpartition_found 64 ui hi h]
end R9c17

/-- where the port text is: behind the ':' that follows a host text `w` that reads back (`Reads w h`: a plain
    host without ':' '@' '[' — `reads_plain` — or a bracketed one `[…]` without '@' ']' inside —
    `reads_bracketed`), with or without a userinfo part in front -/
theorem C17_portText_after_host (pre w h ps : Str) (hr : Reads w h)
    (hpre : pre = [] ∨ ∃ ui, pre = ui ++ [64]) (p64 : 64 ∉ ps) (p91 : 91 ∉ ps) :
    portText (pre ++ w ++ [58] ++ ps) = ps := by
  have h64 : 64 ∉ w ++ [58] ++ ps := by simp [hr.h64, p64]
  unfold portText
  rcases hpre with rfl | ⟨ui, rfl⟩
  · rw [List.nil_append, userTriple_noAt _ h64, hostPort_eq, hr.port ps p91]
  · have e : ui ++ [64] ++ w ++ [58] ++ ps = ui ++ 64 :: (w ++ [58] ++ ps) := by simp
    rw [e, userTriple_at _ _ h64, hostPort_eq, hr.port ps p91]

/-- the plain-host case spelled out -/
theorem C17_portText_plain (h ps : Str) (h58 : 58 ∉ h) (h64 : 64 ∉ h) (h91 : 91 ∉ h) (p64 : 64 ∉ ps) (p91 : 91 ∉ ps) :
    portText (h ++ [58] ++ ps) = ps := by
  simpa using C17_portText_after_host [] h h ps (reads_plain h h58 h64 h91) (Or.inl rfl) p64 p91

/-- GAPS 2 (c), for `host:port`: with a plain host `h` (no ':' '@' '[') and a non-empty ASCII text `ps` without
    '@' '[' behind the ':', `split_netloc` succeeds with port `p` iff `int(ps) = p` with 0 ≤ p ≤ 65535 -/
theorem C17_host_port_accepts (o : Oracles) (h ps : Str) (h58 : 58 ∉ h) (h64 : 64 ∉ h) (h91 : 91 ∉ h)
    (p64 : 64 ∉ ps) (p91 : 91 ∉ ps) (hne : ps ≠ []) (hasc : isAscii ps = true) (p : Nat) :
    (∃ np, splitNetloc o (h ++ [58] ++ ps) = .ok np ∧ np.port = some p) ↔
      ∃ v : Int, pyIntAscii ps = some v ∧ 0 ≤ v ∧ v ≤ 65535 ∧ v.toNat = p := by
  have e := C17_portText_plain h ps h58 h64 h91 p64 p91
  have := (C17_splitNetloc_port_iff o (h ++ [58] ++ ps) (by rw [e]; exact hne) (by rw [e]; exact hasc) p).1
  rw [e] at this
  exact this

/-- the consequences named in GAPS 2: "+80", " 80 ", "8_0", "080" are port 80 and "-0" is port 0; "-1", "65536",
    "8__0", "_80", "80_", "8 0", "0x50" are ValueError; "" is no port; a non-ASCII text is the oracle's business
    ("８０": full-width digits, `int()` = 80 in Python). -/
theorem C17_port_text_instances :
    let o := Oracles.empty
    let port := fun (n : String) => (splitNetloc o n.toStr).map (·.port)
    port "h:+80" = .ok (some 80) ∧ port "h: 80 " = .ok (some 80) ∧ port "h:8_0" = .ok (some 80) ∧
    port "h:080" = .ok (some 80) ∧ port "h:-0" = .ok (some 0) ∧ port "h:65535" = .ok (some 65535) ∧
    port "h:" = .ok none ∧
    port "h:-1" = .error .valueError ∧ port "h:65536" = .error .valueError ∧
    port "h:8__0" = .error .valueError ∧ port "h:_80" = .error .valueError ∧ port "h:80_" = .error .valueError ∧
    port "h:8 0" = .error .valueError ∧ port "h:0x50" = .error .valueError ∧ port "h:+-80" = .error .valueError ∧
    port "h:+" = .error .valueError ∧ port "h: " = .error .valueError ∧
    (splitNetloc o ("h:".toStr ++ [65304, 65296])).map (·.port) = .error (.oracleMiss "intU" [65304, 65296]) ∧
    (splitNetloc { o with intU := fun _ => some (some 80) } ("h:".toStr ++ [65304, 65296])).map (·.port)
      = .ok (some 80) := by
  decide +kernel

/-! ### which whitespace can reach the port parser -/

/-- `split_url` removes TAB / LF / CR everywhere (and strips leading C0/space of the whole URL): no character of
    `Gen.removeSet` is left in the authority it cuts out, hence none in the port text -/
theorem C17_ctor_netloc_no_tab (o : Oracles) (s : Str) (pt : Parts) (h : splitUrl o s = .ok pt) :
    (∀ c ∈ Gen.removeSet, c ∉ pt.netloc) ∧ (∀ c ∈ pt.netloc, c ≠ 9 ∧ c ≠ 10 ∧ c ≠ 13) ∧
    (∀ c ∈ portText pt.netloc, c ∈ pt.netloc) := by
  have hB := C07_split o s pt h
  rw [ParseLemmas.appendixB_eq] at hB
  simp only [toParts5, Rfc.Parts5.mk.injEq] at hB
  obtain ⟨_, h2, _⟩ := hB
  have h1 := WfLemmas.schemeOf_snd_sublist Gen.schemeChars (cleanUrl s)
  have ha := (WfLemmas.authOf_sublist (Rfc.schemeOf Gen.schemeChars (cleanUrl s)).2).1
  have hsub : pt.netloc.Sublist (cleanUrl s) := by rw [h2]; exact ha.trans h1
  have hno : ∀ c ∈ pt.netloc, c ≠ 9 ∧ c ≠ 10 ∧ c ≠ 13 :=
    fun c hc => UnsplitLemmas.cleanUrl_no_tab s c (hsub.subset hc)
  refine ⟨?_, hno, ?_⟩
  · intro c hc hm
    have := hno c hm
    have hrs : c = 9 ∨ c = 10 ∨ c = 13 := by
      have : mem c Gen.removeSet = true := mem_iff.mpr hc
      have h' := ParseLemmas.mem_removeSet c
      rw [this] at h'
      simp at h'
      omega
    omega
  · intro c hc
    apply userTriple_sub pt.netloc
    unfold portText ParseLemmas.hostPort at hc
    split at hc
    · exact partition_snd_sub 91 _ c (partition_snd_sub 93 _ c (partition_snd_sub 58 _ c hc))
    · exact partition_snd_sub 58 _ c hc

/-- … while the other characters `int()` strips — space, VT, FF, FS, GS, RS, US — do reach it through the
    constructor and are accepted around the digits (both backends); a TAB / LF / CR INSIDE the digits is simply
    removed: `URL("http://h:8\t0/")` has port 80. -/
theorem C17_ctor_port_whitespace (b : Backend) :
    (∀ c ∈ [32, 11, 12, 28, 29, 30, 31],
      (encodeUrl ⟨b, Oracles.empty⟩ ("http://h:".toStr ++ [c] ++ "80".toStr ++ [c] ++ "/".toStr)).bind
        (explicitPort ⟨b, Oracles.empty⟩) = .ok (some 80)) ∧
    (∀ c ∈ [9, 10, 13],
      (encodeUrl ⟨b, Oracles.empty⟩ ("http://h:8".toStr ++ [c] ++ "0/".toStr)).bind
        (explicitPort ⟨b, Oracles.empty⟩) = .ok (some 80)) := by
  cases b <;> decide +kernel

/-! ## Item 4 -/
namespace R9c17

theorem find_map_iff (T : List (Str × Nat)) (hnd : (T.map (·.1)).Nodup) (s : Str) (p : Nat) :
    (T.find? (·.1 = s)).map (·.2) = some p ↔ (s, p) ∈ T := by
  induction T with
  | nil => simp
  | cons x xs ih =>
    obtain ⟨k, v⟩ := x
    simp only [List.map_cons, List.nodup_cons] at hnd
    by_cases hk : k = s
    · subst hk
      simp only [List.find?_cons, decide_true, Option.map_some, Option.some.injEq, List.mem_cons, Prod.mk.injEq,
        true_and]
      constructor
      · intro h; exact Or.inl h.symm
      · rintro (h | h)
        · exact h.symm
        · exact absurd (List.mem_map.2 ⟨(k, p), h, rfl⟩) hnd.1
    · have hk' : ¬ s = k := fun e => hk e.symm
      simp only [List.find?_cons, hk, decide_false, List.mem_cons, Prod.mk.injEq, hk', false_and, false_or]
      exact ih hnd.2

theorem pyInt_natToStr (o : Oracles) (p : Nat) : pyInt o (natToStr p) = .ok (some (Int.ofNat p)) := by
  unfold pyInt
  rw [isAscii_natToStr, natToStr_roundtrip]
  rfl

end R9c17

/-- GAPS 4, the complete `DEFAULT_PORTS` table, computed from the generated table: a scheme has the default port
    `p` iff the pair is one of the five listed — EVERY other scheme (any string) has none -/
theorem C17_default_port_table (s : Str) (p : Nat) :
    defaultPort s = some p ↔
      (s, p) ∈ [("http".toStr, 80), ("https".toStr, 443), ("ws".toStr, 80), ("wss".toStr, 443), ("ftp".toStr, 21)] := by
  unfold defaultPort
  rw [find_map_iff Gen.defaultPorts (by decide) s p]
  have h1 : ∀ x ∈ Gen.defaultPorts,
      x ∈ [("http".toStr, 80), ("https".toStr, 443), ("ws".toStr, 80), ("wss".toStr, 443), ("ftp".toStr, 21)] := by
    decide
  have h2 : ∀ x ∈ [("http".toStr, 80), ("https".toStr, 443), ("ws".toStr, 80), ("wss".toStr, 443),
      ("ftp".toStr, 21)], x ∈ Gen.defaultPorts := by decide
  exact ⟨h1 _, h2 _⟩

/-- … in particular a scheme outside the five has no default -/
theorem C17_default_port_none (s : Str)
    (h : s ∉ ["http".toStr, "https".toStr, "ws".toStr, "wss".toStr, "ftp".toStr]) : defaultPort s = none := by
  cases hd : defaultPort s with
  | none => rfl
  | some p =>
    have := (C17_default_port_table s p).1 hd
    simp only [List.mem_cons, Prod.mk.injEq, List.not_mem_nil, or_false] at this h
    rcases this with h' | h' | h' | h' | h' <;> simp [h'.1] at h

/-- GAPS 4 "port falls back to the scheme default … only when none is written", as equivalences: with no port
    written, `port` is `p` iff `p` is the scheme default; in general `port` is `p` iff `p` is written, or nothing is
    written and `p` is the scheme default; and `port` fails exactly as `explicit_port` does. -/
theorem C17_port_default_iff (e : Env) (u : Url) (p : Nat) :
    (explicitPort e u = .ok none → (port e u = .ok (some p) ↔ defaultPort u.scheme = some p)) ∧
    (port e u = .ok (some p) ↔
      explicitPort e u = .ok (some p) ∨ (explicitPort e u = .ok none ∧ defaultPort u.scheme = some p)) ∧
    (port e u = .ok none ↔ explicitPort e u = .ok none ∧ defaultPort u.scheme = none) ∧
    (∀ err, port e u = .error err ↔ explicitPort e u = .error err) := by
  unfold port
  cases h : explicitPort e u with
  | error err => simp [bind, Except.bind]
  | ok ep =>
    cases ep with
    | none => simp [bind, Except.bind, pure, Except.pure]
    | some x => simp [bind, Except.bind, pure, Except.pure]

/-- GAPS 4, the contrast in one statement.  `build(host=…, port=p)` DROPS a port equal to the default of the
    (lower-cased) scheme — explicit_port is None, `port` still answers `p`; the constructor KEEPS a written port
    whatever the scheme — explicit_port is `p` also when `p` is the scheme default (str() omits it then:
    `C17_headline_ctor_port_views`).  Instances (`C17_default_port_build_vs_ctor_instances`):
    `URL.build(scheme="http", host="h", port=80)` vs `URL("http://h:80")` — same `str()`, same `port`, different
    explicit_port, and the two are NOT `==` (the stored authorities "h" / "h:80" differ). -/
theorem C17_default_port_build_vs_ctor (e : Env) :
    (∀ (a : BuildArgs) (u : Url) (sc : Str) (p : Int), a.encoded = false → a.authority = [] → a.host ≠ [] →
      lowerAny e a.scheme = .ok sc → build e a = .ok u → a.port = some p → some p.toNat = defaultPort sc →
      explicitPort e u = .ok none ∧ port e u = .ok (some p.toNat) ∧ u.scheme = sc) ∧
    (∀ (s : Str) (u : Url) (pt : Parts) (p : Nat), encodeUrl e s = .ok u → splitUrl e.o s = .ok pt →
      portText pt.netloc = natToStr p →
      explicitPort e u = .ok (some p) ∧ port e u = .ok (some p) ∧ p ≤ 65535) := by
  constructor
  · intro a u sc p henc hauth hhost hsc hb hp hd
    have := C17_headline_build_port e a u henc hauth hhost sc hsc hb
    rw [hp] at this
    simp only [hd, if_true] at this
    exact ⟨this.2.1, by rw [hd]; exact this.2.2, this.1⟩
  · intro s u pt p hu hpt htxt
    obtain ⟨pt', hpt', _, h2⟩ := C17_headline_ctor_explicit_port e s u hu
    rw [hpt] at hpt'; cases hpt'
    have hne : portText pt.netloc ≠ [] := by rw [htxt]; exact (natToStr_digits p).1
    have hn : pt.netloc ≠ [] := by
      intro h0; have := portText_colon pt.netloc hne; rw [h0] at this; cases this
    obtain ⟨np, _, hep, _, h4⟩ := h2 hn
    obtain ⟨v, hv, _, hv2, hnp⟩ := h4 hne
    rw [htxt, pyInt_natToStr] at hv
    cases hv
    have hp : np.port = some p := by simpa using hnp
    have hle : p ≤ 65535 := by
      have : (p : Int) ≤ 65535 := hv2
      omega
    rw [hp] at hep
    exact ⟨hep, by rw [C17_port_fallback e u _ hep]; rfl, hle⟩

theorem C17_default_port_build_vs_ctor_instances (b : Backend) :
    let e : Env := ⟨b, Oracles.empty⟩
    let ub := build e { scheme := "http".toStr, host := "h".toStr, port := some 80 }
    let uc := encodeUrl e "http://h:80".toStr
    ub.bind (explicitPort e) = .ok none ∧ uc.bind (explicitPort e) = .ok (some 80) ∧
    ub.bind (port e) = .ok (some 80) ∧ uc.bind (port e) = .ok (some 80) ∧
    ub.bind (str e) = .ok "http://h".toStr ∧ uc.bind (str e) = .ok "http://h".toStr ∧
    ub.map (·.netloc) = .ok "h".toStr ∧ uc.map (·.netloc) = .ok "h:80".toStr ∧
    -- the two are NOT equal as URLs (`==` compares the stored authority)
    (do let x ← ub; let y ← uc; pure (x.beq y) : R Bool) = .ok false := by
  cases b <;> decide +kernel

/-! ## Item 5 -/

/-- GAPS 5, the full truth table of `is_default_port()` (any URL on which `explicit_port` answers `ep`):
    True iff  (no port written AND there is an authority)  or  (the written port is the scheme default). -/
theorem C17_is_default_port_iff (e : Env) (u : Url) (ep : Option Nat) (h : explicitPort e u = .ok ep) :
    (isDefaultPort e u = .ok true ↔
      (ep = none ∧ u.netloc ≠ []) ∨ (∃ p, ep = some p ∧ defaultPort u.scheme = some p)) ∧
    (isDefaultPort e u = .ok false ↔
      (ep = none ∧ u.netloc = []) ∨ (∃ p, ep = some p ∧ defaultPort u.scheme ≠ some p)) := by
  rw [C17_is_default_port e u ep h]
  cases ep with
  | none =>
    cases hn : u.netloc <;> simp
  | some p =>
    simp only [Except.ok.injEq, decide_eq_true_eq, reduceCtorEq, false_and, Option.some.injEq, exists_eq_left',
      false_or, decide_eq_false_iff_not, ne_eq]
    exact ⟨⟨fun h => h.symm, fun h => h.symm⟩, ⟨fun h h' => h h'.symm, fun h h' => h h'.symm⟩⟩

/-- GAPS 5, corollaries.  For a scheme WITHOUT default port: a written port is never "default"; an ABSENT port
    with an authority IS reported as default (the oddity: `URL("foo://h").is_default_port()` is True although
    `port` is None); without authority it is False.  And `is_default_port()` and `port` agree: when it is True,
    `port` is the scheme default (possibly None), and a written port then equals it; with an authority the
    converse holds too. -/
theorem C17_is_default_port_cases (e : Env) (u : Url) (ep : Option Nat) (h : explicitPort e u = .ok ep) :
    (defaultPort u.scheme = none → ∀ p, ep = some p → isDefaultPort e u = .ok false) ∧
    (defaultPort u.scheme = none → ep = none → u.netloc ≠ [] → isDefaultPort e u = .ok true ∧ port e u = .ok none) ∧
    (u.netloc = [] → ep = none → isDefaultPort e u = .ok false) ∧
    (isDefaultPort e u = .ok true → port e u = .ok (defaultPort u.scheme) ∧
      ∀ p, ep = some p → port e u = .ok (some p) ∧ defaultPort u.scheme = some p) ∧
    (u.netloc ≠ [] → (isDefaultPort e u = .ok true ↔ port e u = .ok (defaultPort u.scheme))) := by
  have ht := (C17_is_default_port_iff e u ep h).1
  have hf := (C17_is_default_port_iff e u ep h).2
  have hp := C17_port_fallback e u ep h
  refine ⟨?_, ?_, ?_, ?_, ?_⟩
  · intro hd p hep
    exact hf.2 (Or.inr ⟨p, hep, by rw [hd]; simp⟩)
  · intro hd hep hn
    exact ⟨ht.2 (Or.inl ⟨hep, hn⟩), by rw [hp, hep, hd]; rfl⟩
  · intro hn hep
    exact hf.2 (Or.inl ⟨hep, hn⟩)
  · intro hT
    rcases ht.1 hT with ⟨hep, _⟩ | ⟨p, hep, hd⟩
    · subst hep
      exact ⟨by rw [hp]; rfl, fun p hp' => by cases hp'⟩
    · subst hep
      refine ⟨by rw [hp, hd]; rfl, fun p' hp' => ?_⟩
      cases hp'
      exact ⟨by rw [hp]; rfl, hd⟩
  · intro hn
    constructor
    · intro hT
      rcases ht.1 hT with ⟨hep, _⟩ | ⟨p, hep, hd⟩
      · subst hep; rw [hp]; rfl
      · subst hep; rw [hp, hd]; rfl
    · intro hP
      rw [hp] at hP
      cases ep with
      | none => exact ht.2 (Or.inl ⟨rfl, hn⟩)
      | some p =>
        have : some p = defaultPort u.scheme := by simpa using hP
        exact ht.2 (Or.inr ⟨p, rfl, this.symm⟩)

/-- a URL without authority and without pre-filled cache: `explicit_port` is None and `is_default_port()` False -/
theorem C17_is_default_port_no_authority (e : Env) (u : Url) (hpre : u.pre = none) (hn : u.netloc = []) :
    explicitPort e u = .ok none ∧ isDefaultPort e u = .ok false := by
  have h : explicitPort e u = .ok none := by
    unfold explicitPort net lazyNet; rw [hpre, hn]; rfl
  exact ⟨h, (C17_is_default_port_cases e u none h).2.2.1 hn rfl⟩

/-- the oddity as Python-level instances (both backends): `URL("foo://h").is_default_port()` is True with
    `port` None; `URL("foo://h:80")` False; `URL("foo:p")` (no authority) False; `URL("http://h")` True,
    `URL("http://h:80")` True, `URL("http://h:81")` False, `URL("http://h:0")` False. -/
theorem C17_is_default_port_instances (b : Backend) :
    let e : Env := ⟨b, Oracles.empty⟩
    let idp := fun (s : String) => (encodeUrl e s.toStr).bind (isDefaultPort e)
    idp "foo://h" = .ok true ∧ (encodeUrl e "foo://h".toStr).bind (port e) = .ok none ∧
    idp "foo://h:80" = .ok false ∧ idp "foo:p" = .ok false ∧ idp "/p" = .ok false ∧
    idp "http://h" = .ok true ∧ idp "http://h:80" = .ok true ∧ idp "http://h:81" = .ok false ∧
    idp "http://h:0" = .ok false := by
  cases b <;> decide +kernel

/-! ## Items 6 and 7, the general layer: every port view as a function of `net` -/

/-- the port-related views of ANY URL on which the authority components are available (`net e u = .ok n`: the
    pre-filled cache of a constructor result, or what `split_netloc` reads from the stored text), written out.
    No `Written`, no guard. -/
theorem C17_port_views_of_net (e : Env) (u : Url) (n : NetPre) (hn : net e u = .ok n) :
    explicitPort e u = .ok n.explicitPort ∧
    port e u = .ok (n.explicitPort <|> defaultPort u.scheme) ∧
    isDefaultPort e u = .ok (match n.explicitPort with
      | none => !u.netloc.isEmpty
      | some p => decide (some p = defaultPort u.scheme)) ∧
    hostSubcomponent e u = .ok (n.rawHost.map bracket) ∧
    hostPortSubcomponent e u = .ok (n.rawHost.map (fun raw =>
      match n.explicitPort with
      | none => bracket (rstripC 46 raw)
      | some p => if some p = defaultPort u.scheme then bracket (rstripC 46 raw)
                  else bracket (rstripC 46 raw) ++ [58] ++ natToStr p)) ∧
    str e u = .ok (unsplitResult u.scheme
      (match n.explicitPort with
        | some p => if some p = defaultPort u.scheme
                    then makeNetloc id n.rawUser n.rawPassword (n.rawHost.map bracket) none false
                    else u.netloc
        | none => u.netloc)
      (if u.path.isEmpty && !u.netloc.isEmpty && (!u.query.isEmpty || !u.fragment.isEmpty) then [47] else u.path)
      u.query u.fragment) := by
  have hep : explicitPort e u = .ok n.explicitPort := by unfold explicitPort; rw [hn]; rfl
  have hrh : rawHost e u = .ok n.rawHost := by unfold rawHost; rw [hn]; rfl
  have hru : rawUser e u = .ok n.rawUser := by unfold rawUser; rw [hn]; rfl
  have hrp : rawPassword e u = .ok n.rawPassword := by unfold rawPassword; rw [hn]; rfl
  have hhs : hostSubcomponent e u = .ok (n.rawHost.map bracket) := by
    unfold hostSubcomponent; rw [hrh]; rfl
  refine ⟨hep, C17_port_fallback e u _ hep, C17_is_default_port e u _ hep, hhs, ?_, ?_⟩
  · unfold hostPortSubcomponent
    rw [hrh]
    cases hh : n.rawHost with
    | none => rfl
    | some raw =>
      simp only [bind, Except.bind, hep, rstrip_guard, Option.map_some]
      cases n.explicitPort with
      | none => rfl
      | some p =>
        by_cases hd : some p = defaultPort u.scheme
        · simp [hd, bracket, pure, Except.pure]
        · simp [hd, bracket, pure, Except.pure]
  · unfold str
    rw [hep]
    cases n.explicitPort with
    | none => rfl
    | some p =>
      by_cases hd : some p = defaultPort u.scheme
      · simp only [bind, Except.bind, hd, if_true, hhs, hru, hrp, pure, Except.pure]
        rw [makeNetloc_qf (q e Gen.QUOTER) id]
      · simp only [bind, Except.bind, hd, if_false, pure, Except.pure]

/-- GAPS 6, the EXACT result of `with_port` on ANY URL (cache or not, any stored authority text), with the order of
    the checks: TypeError for a bool / non-int, then ValueError for an int outside 0–65535, then ValueError for a URL
    without authority, and only then the authority is read — an error of `net` (ValueError for an unparsable port
    text in the stored authority, or an oracle miss) is passed on unchanged; otherwise the authority is re-made from
    raw_user, raw_password, the host in brackets iff it contains ':', and the new port. -/
theorem C17_with_port_exact (e : Env) (u : Url) (np : Option Int) (k : Nat) :
    withPort e u np k =
      if k ≠ 0 then .error .typeError
      else if EncTrue.portBad np then .error .valueError
      else if u.netloc = [] then .error .valueError
      else (net e u).map (fun n => fromParts u.scheme
        (makeNetloc (q e Gen.QUOTER) n.rawUser n.rawPassword (some (bracket (n.rawHost.getD [])))
          (np.map Int.toNat) false) u.path u.query u.fragment) := by
  unfold withPort
  by_cases hk : k ≠ 0
  · simp [hk]
  · rw [if_neg hk, if_neg hk]
    have key : (if u.netloc.isEmpty = true then (Except.error PyErr.valueError : R Url)
        else do
          let h := (← hostSubcomponent e u).getD []
          let netloc := makeNetloc (q e Gen.QUOTER) (← rawUser e u) (← rawPassword e u) (some h)
            (np.map Int.toNat) false
          pure (fromParts u.scheme netloc u.path u.query u.fragment)) =
        if u.netloc = [] then .error .valueError
        else (net e u).map (fun n => fromParts u.scheme
          (makeNetloc (q e Gen.QUOTER) n.rawUser n.rawPassword (some (bracket (n.rawHost.getD [])))
            (np.map Int.toNat) false) u.path u.query u.fragment) := by
      by_cases hne : u.netloc = []
      · simp [hne]
      · have : u.netloc.isEmpty = false := isEmpty_false_of_ne hne
        rw [if_neg hne]
        simp only [this, Bool.false_eq_true, if_false]
        unfold hostSubcomponent rawHost rawUser rawPassword
        cases hn : net e u with
        | error err => rfl
        | ok n =>
          simp only [Except.map, bind, Except.bind, pure, Except.pure]
          cases hh : n.rawHost with
          | none => simp [bracket, mem]
          | some raw => simp [bracket]
    cases np with
    | none => simpa [EncTrue.portBad] using key
    | some p =>
      by_cases hr : 0 ≤ p ∧ p ≤ 65535
      · simpa [EncTrue.portBad, hr] using key
      · simp [EncTrue.portBad, hr]

/-- … in the shape asked for: valid argument, URL with authority -/
theorem C17_with_port_result (e : Env) (u : Url) (np : Option Int) (hne : u.netloc ≠ [])
    (hnp : ∀ p, np = some p → 0 ≤ p ∧ p ≤ 65535) :
    (∀ n, net e u = .ok n → withPort e u np 0 = .ok (fromParts u.scheme
        (makeNetloc (q e Gen.QUOTER) n.rawUser n.rawPassword (some (bracket (n.rawHost.getD [])))
          (np.map Int.toNat) false) u.path u.query u.fragment)) ∧
    (∀ err, net e u = .error err → withPort e u np 0 = .error err) ∧
    (u.pre = none → ∀ err, net e u = .error err → err = .valueError ∨ ∃ f a, err = .oracleMiss f a) := by
  have hb : EncTrue.portBad np = false := by
    cases np with
    | none => rfl
    | some p => simp [EncTrue.portBad, hnp p rfl]
  have h := C17_with_port_exact e u np 0
  rw [if_neg (by simp), hb, if_neg hne] at h
  simp only [Bool.false_eq_true, if_false] at h
  refine ⟨fun n hn => by rw [h, hn]; rfl, fun err hn => by rw [h, hn]; rfl, ?_⟩
  intro hpre err hn
  unfold net lazyNet at hn
  rw [hpre] at hn
  simp only at hn
  rcases C07_netloc_total e.o u.netloc with ⟨r, hr⟩ | hr | ⟨f, a, hr⟩
  · rw [hr] at hn; cases hn
  · rw [hr] at hn; cases hn; exact Or.inl rfl
  · rw [hr] at hn; cases hn; exact Or.inr ⟨f, a, rfl⟩

/-- GAPS 6, READ-BACK, hypotheses on the raw components only: for ANY URL with authority whose components are
    available, if the user is `UserOK` (absent, or non-empty without ':') and the raw host `h` has no '@' and is
    `GoodHost` (with a ':' it has no ']'; without a ':' it has no '['), then `with_port(p)` succeeds and on the result
    explicit_port reads `p` (None for `with_port(None)`), raw_user / raw_password read as before, and raw_host reads
    `h` — unless nothing at all is left to write (no user, no password, empty host, port cleared: then the
    authority is empty and raw_host is None). -/
theorem C17_with_port_readback (e : Env) (u : Url) (n : NetPre) (np : Option Int)
    (hnet : net e u = .ok n) (hne : u.netloc ≠ []) (hnp : ∀ p, np = some p → 0 ≤ p ∧ p ≤ 65535)
    (hu : UserOK n.rawUser) (h64 : 64 ∉ n.rawHost.getD []) (hg : EncTrue.GoodHost (n.rawHost.getD [])) :
    ∃ v, withPort e u np 0 = .ok v ∧ v.pre = none ∧
      explicitPort e v = .ok (np.map Int.toNat) ∧
      rawUser e v = .ok n.rawUser ∧ rawPassword e v = .ok n.rawPassword ∧
      rawHost e v = .ok (if n.rawUser = none ∧ n.rawPassword = none ∧ n.rawHost.getD [] = [] ∧ np = none
        then none else some (n.rawHost.getD [])) ∧
      v.scheme = u.scheme ∧ v.path = u.path ∧ v.query = u.query ∧ v.fragment = u.fragment := by
  have hp : ∀ k, np.map Int.toNat = some k → k ≤ 65535 := by
    intro k hk
    cases np with
    | none => cases hk
    | some i =>
      have := hnp i rfl
      simp only [Option.map_some, Option.some.injEq] at hk
      omega
  have hN := EncTrue.net_rebuilt e (q e Gen.QUOTER) n.rawUser n.rawPassword (n.rawHost.getD []) (np.map Int.toNat)
    u.scheme u.path u.query u.fragment hu h64 hg hp
  obtain ⟨b1, b2, b3, b4, _⟩ := EncTrue.acc_of_net e _ _ hN
  refine ⟨_, (C17_with_port_result e u np hne hnp).1 n hnet, rfl, b4, b1, b2, ?_, rfl, rfl, rfl, rfl⟩
  rw [b3]
  congr 1
  cases np <;> simp

/-- for a URL WITHOUT pre-filled cache the components `split_netloc` reads always meet the hypotheses of
    `C17_with_port_readback` except possibly "a host without ':' has no '['" (the malformed-bracket family:
    authority "[a[b]" — known findings F-C03-bracket / F-C11-bracket) -/
theorem C17_lazy_components_ok (e : Env) (u : Url) (n : NetPre) (hpre : u.pre = none) (hnet : net e u = .ok n) :
    UserOK n.rawUser ∧ 64 ∉ n.rawHost.getD [] ∧
    (93 ∉ n.rawHost.getD [] ∨ (58 ∉ n.rawHost.getD [] ∧ 91 ∉ n.rawHost.getD [])) ∧
    (∀ p, n.explicitPort = some p → p ≤ 65535) ∧
    (¬ (91 ∈ n.rawHost.getD [] ∧ 58 ∉ n.rawHost.getD []) → EncTrue.GoodHost (n.rawHost.getD [])) := by
  unfold net lazyNet at hnet
  rw [hpre] at hnet
  simp only at hnet
  cases hs : splitNetloc e.o u.netloc with
  | error err => rw [hs] at hnet; cases hnet
  | ok r =>
    rw [hs] at hnet
    simp only [bind, Except.bind, pure, Except.pure] at hnet
    cases hnet
    obtain ⟨f1, f2, f3, f4, _⟩ := EncTrue.split_facts e.o u.netloc r hs
    cases hrh : r.host with
    | some h =>
      rw [hrh] at f2 f3
      exact ⟨f1, f2, f3, f4, fun hgood => EncTrue.good_of_facts f3 hgood⟩
    | none =>
      rw [hrh] at f2 f3
      have hh : (if u.netloc.isEmpty = true then (none : Option Str) else some []).getD [] = [] := by
        split <;> rfl
      simp only [hh]
      exact ⟨f1, by simp, by simp, f4, fun _ => Or.inr ⟨by simp, by simp⟩⟩

namespace R9c17

/-- `split_netloc (make_netloc …)` reduces to the host/port half on the written host-and-port text -/
theorem split_make (o : Oracles) (qf : Str → Str) (U P : Option Str) (w : Str) (port : Option Nat)
    (hu : UserOK U) (h64 : 64 ∉ hostPortStr w port) :
    ∃ X : Option Str, X.bind orNone = U ∧
      splitNetloc o (makeNetloc qf U P (some w) port false) = finish o X P (hostPortStr w port) := by
  rw [splitNetloc_eq, makeNetloc_eq]
  cases U with
  | none =>
    cases P with
    | none => exact ⟨none, rfl, by simp only [userSplit_noAt _ h64]⟩
    | some x =>
      have e : (none : Option Str).getD [] ++ 58 :: x ++ 64 :: hostPortStr w port
          = (58 :: x) ++ 64 :: hostPortStr w port := by simp
      refine ⟨some [], by simp [orNone], ?_⟩
      simp only [e, userSplit_at _ _ h64]
      simp [partition]
  | some u =>
    have ⟨hne, h58⟩ := hu u rfl
    have hemp : u.isEmpty = false := by cases u with
      | nil => exact absurd rfl hne
      | cons _ _ => rfl
    have hor : orNone u = some u := by simp [orNone, hemp]
    cases P with
    | none =>
      refine ⟨some u, by simpa using hor, ?_⟩
      simp only [hemp, Bool.false_eq_true, if_false]
      rw [userSplit_at u _ h64]
      simp only [partition_notFound 58 u h58]
      simp
    | some x =>
      have e : (some u).getD [] ++ 58 :: x ++ 64 :: hostPortStr w port
          = (u ++ 58 :: x) ++ 64 :: hostPortStr w port := by simp
      refine ⟨some u, by simpa using hor, ?_⟩
      simp only [e, userSplit_at _ _ h64, partition_found 58 u x h58]
      simp

/-- a bare host text with a '[' but neither ':' nor ']' swallows the port written behind it -/
theorem hostPort_swallow (h ds : Str) (h91 : 91 ∈ h) (h93 : 93 ∉ h) (d93 : 93 ∉ ds) :
    (NetlocLemmas.hostPort (h ++ [58] ++ ds)).2 = [] := by
  obtain ⟨a, b, rfl, ha⟩ : ∃ a b, h = a ++ 91 :: b ∧ 91 ∉ a := by
    rcases ParseLemmas.dropWhile_ne_cases 91 h with ⟨hm, _⟩ | ⟨_, hd⟩
    · exact absurd h91 hm
    · refine ⟨h.takeWhile (· ≠ 91), (h.dropWhile (· ≠ 91)).drop 1, ?_, ParseLemmas.not_mem_takeWhile_ne 91 h⟩
      rw [← hd]
      exact (List.takeWhile_append_dropWhile).symm
  have hb93 : 93 ∉ b ++ 58 :: ds := by
    intro hm
    rcases List.mem_append.1 hm with hm | hm
    · exact h93 (by simp [hm])
    · simp at hm; exact d93 hm
  have e1 : mem 91 (a ++ 91 :: b ++ [58] ++ ds) = true := mem_iff.mpr (by simp)
  have e2 : a ++ 91 :: b ++ [58] ++ ds = a ++ 91 :: (b ++ 58 :: ds) := by simp
  unfold NetlocLemmas.hostPort
  rw [e1, e2]
  simp only [if_true, partition_found 91 a _ ha, partition_notFound 93 _ hb93]
  rfl

end R9c17

/-- GAPS 6, the read-back FAILS exactly in the remaining case (so `C17_with_port_readback` is sharp on URLs without
    cache): if the raw host has a '[' but no ':' (and, as always for a lazily read host, no ']' and no '@'), the host
    is re-written WITHOUT brackets, the stray '[' then swallows the new port, and explicit_port of
    `with_port(p)` reads None. -/
theorem C17_with_port_readback_fails (e : Env) (u : Url) (n : NetPre) (p : Int)
    (hnet : net e u = .ok n) (hne : u.netloc ≠ []) (hp : 0 ≤ p ∧ p ≤ 65535)
    (hu : UserOK n.rawUser) (h64 : 64 ∉ n.rawHost.getD [])
    (h91 : 91 ∈ n.rawHost.getD []) (h58 : 58 ∉ n.rawHost.getD []) (h93 : 93 ∉ n.rawHost.getD []) :
    ∃ v, withPort e u (some p) 0 = .ok v ∧ explicitPort e v = .ok none := by
  refine ⟨_, (C17_with_port_result e u (some p) hne (by intro q hq; cases hq; exact hp)).1 n hnet, ?_⟩
  generalize n.rawHost.getD [] = h at *
  have hb : bracket h = h := by unfold bracket; simp [mem_false_iff.mpr h58]
  rw [hb]
  have hd := natToStrAux_digits p.toNat p.toNat
  have hret : 64 ∉ hostPortStr h (some p.toNat) := StrTotal.notMem_hostPortStr_written _ h64
  obtain ⟨X, hX, hs⟩ := split_make e.o (q e Gen.QUOTER) n.rawUser n.rawPassword h (some p.toNat) hu hret
  have hsw := hostPort_swallow h (natToStr p.toNat) h91 h93 (notMem_digits hd.2 93 (by omega))
  unfold explicitPort net lazyNet fromParts
  simp only [Option.map_some]
  rw [hs]
  unfold finish
  simp only [hostPortStr]
  simp only [hsw, List.isEmpty_nil, if_true]
  rfl

/-- GAPS 6, the read-back of `with_port(p)` on a URL WITHOUT cache (every `build` / modifier / `encoded=True`
    result), as an equivalence — hypotheses on the stored authority only through its raw host `h`: explicit_port reads
    `p` on the result iff `h` is not of the shape "contains '[' but no ':'". -/
theorem C17_with_port_readback_lazy_iff (e : Env) (u : Url) (n : NetPre) (p : Int)
    (hpre : u.pre = none) (hnet : net e u = .ok n) (hne : u.netloc ≠ []) (hp : 0 ≤ p ∧ p ≤ 65535) :
    (∃ v, withPort e u (some p) 0 = .ok v ∧ explicitPort e v = .ok (some p.toNat)) ↔
      ¬ (91 ∈ n.rawHost.getD [] ∧ 58 ∉ n.rawHost.getD []) := by
  obtain ⟨f1, f2, f3, _, f5⟩ := C17_lazy_components_ok e u n hpre hnet
  constructor
  · rintro ⟨v, hv, hep⟩ ⟨h91, h58⟩
    have h93 : 93 ∉ n.rawHost.getD [] := by
      rcases f3 with h | h
      · exact h
      · exact absurd h91 h.2
    obtain ⟨v', hv', hep'⟩ := C17_with_port_readback_fails e u n p hnet hne hp f1 f2 h91 h58 h93
    rw [hv] at hv'
    cases hv'
    rw [hep] at hep'
    cases hep'
  · intro hgood
    obtain ⟨v, hv, _, hep, _⟩ := C17_with_port_readback e u n (some p) hnet hne
      (by intro q hq; cases hq; exact hp) f1 f2 (f5 hgood)
    exact ⟨v, hv, hep⟩

namespace R9c17

/-- the cache the constructor fills, with the provenance of the host text: `host1 = _encode_host(host0)`,
    `host0` the host of the input authority ("" when there is none and the scheme allows that), written with the
    brackets the input had when `_encode_host` did not add them itself -/
theorem ctor_cache_host (e : Env) (s : Str) (u : Url) (hu : encodeUrl e s = .ok u) :
    ∃ pt, splitUrl e.o s = .ok pt ∧ u.scheme = pt.scheme ∧
      (pt.netloc ≠ [] → ∃ np host0 host1, splitNetloc e.o pt.netloc = .ok np ∧
        hostOr pt.scheme np.host = .ok host0 ∧ encodeHost e.o host0 false = .ok host1 ∧
        u.pre = some { rawHost := some (unbracket (StrTotal.rebracket (mem 91 (rpartition 64 pt.netloc).2.2) host1)),
                       explicitPort := np.port,
                       rawUser := cachedUser e np.user, rawPassword := requoteOpt e np.password } ∧
        u.netloc = makeNetloc (q e Gen.QUOTER) (cachedUser e np.user) (requoteOpt e np.password)
          (some (StrTotal.rebracket (mem 91 (rpartition 64 pt.netloc).2.2) host1)) np.port false) := by
  rw [encodeUrl_eq] at hu
  obtain ⟨pt, hpt, hu⟩ := WfLemmas.bind_ok hu
  obtain ⟨⟨netloc, pre⟩, hab, hu⟩ := WfLemmas.bind_ok hu
  cases hu
  refine ⟨pt, hpt, rfl, ?_⟩
  intro hn
  unfold authBlock at hab
  split at hab
  · rename_i he; exact absurd (by simpa using he) hn
  · rw [authSplit_eq _ _ hn] at hab
    obtain ⟨np, hnp, hab⟩ := WfLemmas.bind_ok hab
    obtain ⟨host0, hh0, hab⟩ := WfLemmas.bind_ok hab
    obtain ⟨host1, hh1, hab⟩ := WfLemmas.bind_ok hab
    rw [eagerOut_eq] at hab
    cases hab
    exact ⟨np, host0, host1, hnp, hh0, hh1, rfl, rfl⟩

theorem unbracket_rebracket_nil (b : Bool) : unbracket (StrTotal.rebracket b []) = [] := by
  cases b <;> decide

theorem no_default_of_no_host_requirement (sc : Str) (h : Gen.schemeRequiresHost.contains sc = false) :
    defaultPort sc = none := by
  cases hd : defaultPort sc with
  | none => rfl
  | some p =>
    have := (C17_default_port_table sc p).1 hd
    simp only [List.mem_cons, Prod.mk.injEq, List.not_mem_nil, or_false] at this
    rcases this with h' | h' | h' | h' | h' <;> (rw [h'.1] at h; exact absurd h (by decide))

end R9c17

/-- GAPS 7, EVERY accepted constructor input with an authority — no `AuthInput`, no `GoodAuthority`, no `Written`:
    IPvFuture, bracketed non-IPv6 text, empty host, IDN host with or without port, malformed brackets … .
    `np` is what `split_netloc` reads from the INPUT authority, `host` the host text the constructor stores, `h` the
    raw host it caches (`host` without its brackets), `U` / `P` the requoted user / password.  Sentence 2 of C17:
    explicit_port is the input port; `port`, is_default_port() follow; host_port_subcomponent and str() omit the
    port exactly when it is absent or the scheme default — str() then RE-MAKES the authority from the cached
    components with the host in brackets iff it contains ':' (so "[v1.x]:80" prints as "v1.x"), and prints the
    stored authority otherwise; with_port(p) re-makes it the same way with the new port. -/
theorem C17_ctor_port_views_any (e : Env) (s : Str) (u : Url) (pt : Parts)
    (hu : encodeUrl e s = .ok u) (hpt : splitUrl e.o s = .ok pt) (hne : pt.netloc ≠ []) :
    ∃ np host, splitNetloc e.o pt.netloc = .ok np ∧
      u.netloc = makeNetloc (q e Gen.QUOTER) (cachedUser e np.user) (requoteOpt e np.password) (some host) np.port
        false ∧
      rawHost e u = .ok (some (unbracket host)) ∧
      rawUser e u = .ok (cachedUser e np.user) ∧ rawPassword e u = .ok (requoteOpt e np.password) ∧
      explicitPort e u = .ok np.port ∧ (∀ p, np.port = some p → p ≤ 65535) ∧
      port e u = .ok (np.port <|> defaultPort u.scheme) ∧
      isDefaultPort e u = .ok (match np.port with
        | none => !u.netloc.isEmpty
        | some p => decide (some p = defaultPort u.scheme)) ∧
      hostPortSubcomponent e u = .ok (some (match np.port with
        | none => bracket (rstripC 46 (unbracket host))
        | some p => if some p = defaultPort u.scheme then bracket (rstripC 46 (unbracket host))
                    else bracket (rstripC 46 (unbracket host)) ++ [58] ++ natToStr p)) ∧
      str e u = .ok (unsplitResult u.scheme
        (match np.port with
          | some p => if some p = defaultPort u.scheme
                      then makeNetloc id (cachedUser e np.user) (requoteOpt e np.password)
                        (some (bracket (unbracket host))) none false
                      else u.netloc
          | none => u.netloc)
        (if u.path.isEmpty && !u.netloc.isEmpty && (!u.query.isEmpty || !u.fragment.isEmpty) then [47] else u.path)
        u.query u.fragment) ∧
      (u.netloc ≠ [] → ∀ np' : Option Int, (∀ p, np' = some p → 0 ≤ p ∧ p ≤ 65535) →
        withPort e u np' 0 = .ok (fromParts u.scheme
          (makeNetloc (q e Gen.QUOTER) (cachedUser e np.user) (requoteOpt e np.password)
            (some (bracket (unbracket host))) (np'.map Int.toNat) false) u.path u.query u.fragment)) ∧
      -- read-back of with_port: the user is fine as soon as the input is a Python string; the cached raw host
      -- must be re-writable (no '@'; with ':' no ']', without ':' no '[')
      (u.netloc ≠ [] → PyStr s → 64 ∉ unbracket host → EncTrue.GoodHost (unbracket host) →
        ∀ np' : Option Int, (∀ p, np' = some p → 0 ≤ p ∧ p ≤ 65535) →
        ∃ v, withPort e u np' 0 = .ok v ∧ explicitPort e v = .ok (np'.map Int.toNat) ∧
          rawUser e v = rawUser e u ∧ rawPassword e v = rawPassword e u) := by
  obtain ⟨pt', hpt', _, h2⟩ := ctor_cache_host e s u hu
  rw [hpt] at hpt'; cases hpt'
  obtain ⟨np, host0, host1, hnp, _, _, hpre, hnl⟩ := h2 hne
  refine ⟨np, _, hnp, hnl, ?_⟩
  have hnet : net e u = .ok
      { rawHost := some (unbracket (StrTotal.rebracket (mem 91 (rpartition 64 pt.netloc).2.2) host1)),
        explicitPort := np.port, rawUser := cachedUser e np.user, rawPassword := requoteOpt e np.password } := by
    unfold net; rw [hpre]; rfl
  obtain ⟨v1, v2, v3, _, v5, v6⟩ := C17_port_views_of_net e u _ hnet
  obtain ⟨a1, a2, a3, _, _⟩ := EncTrue.acc_of_net e u _ hnet
  refine ⟨a3, a1, a2, v1, fun p hp => splitNetloc_port_range e.o pt.netloc np p hnp hp, v2, v3, v5, v6, ?_, ?_⟩
  · intro hun np' hnp'
    exact (C17_with_port_result e u np' hun hnp').1 _ hnet
  · intro hun hpy h64 hg np' hnp'
    have hU : UserOK (cachedUser e np.user) :=
      userOK_cached e np.user
        (WfLemmas.splitNetloc_pyStr e.o pt.netloc (WfLemmas.splitUrl_pyStr e.o s hpy pt hpt).1 np hnp).1
    obtain ⟨v, w1, _, w3, w4, w5, _⟩ := C17_with_port_readback e u _ np' hnet hun hnp' hU h64 hg
    exact ⟨v, w1, w3, by rw [w4, a1], by rw [w5, a2]⟩

/-- GAPS 7, bracketed hosts that are not IPv6 addresses (IPvFuture "[v1.x]", "[v1.a:b]", "[g::1]", "[a:b]"; any
    letter case on input; any userinfo / port): the constructor stores `[user[:pw]@][t][:port]` with the brackets
    kept, `t` the lower-cased text.  All of sentence 2 holds, with ONE twist when `t` has no ':' (IPvFuture such as
    "v1.x"): whenever the authority is re-made — str() with a default port, with_port — the brackets are DROPPED
    (`bracket t = t`), because host_subcomponent brackets a host only if it contains ':'
    (known finding F-C07-default-port; `C03_bracket_modifiers_drop_brackets`).  explicit_port still reads back. -/
theorem C17_bracket_ctor_port_views (e : Env) (s : Str) (u : Url) (pt : Parts) (np : NetlocParts) (T : Str)
    (hs : PyStr s) (hu : encodeUrl e s = .ok u) (hpt : splitUrl e.o s = .ok pt)
    (hsp : splitNetloc e.o pt.netloc = .ok np) (hhost : np.host = some T)
    (hwrap : 91 ∈ (rpartition 64 pt.netloc).2.2) (hk : BracketTextIn T) (hlow : bracketCheck (lower T) = true) :
    ∃ user pw t, u.netloc = authTextB user pw t np.port ∧ (t = lower T ∨ t = T) ∧ HostOK t ∧ UserOK user ∧
      rawHost e u = .ok (some t) ∧ explicitPort e u = .ok np.port ∧ (∀ p, np.port = some p → p ≤ 65535) ∧
      port e u = .ok (np.port <|> defaultPort u.scheme) ∧
      isDefaultPort e u = .ok (match np.port with
        | none => true
        | some p => decide (some p = defaultPort u.scheme)) ∧
      hostPortSubcomponent e u = .ok (some (match np.port with
        | none => bracket (rstripC 46 t)
        | some p => if some p = defaultPort u.scheme then bracket (rstripC 46 t)
                    else bracket (rstripC 46 t) ++ [58] ++ natToStr p)) ∧
      str e u = .ok (unsplitResult u.scheme
        (match np.port with
          | some p => if some p = defaultPort u.scheme then makeNetloc id user pw (some (bracket t)) none false
                      else u.netloc
          | none => u.netloc)
        (if u.path.isEmpty && (!u.query.isEmpty || !u.fragment.isEmpty) then [47] else u.path) u.query u.fragment) ∧
      (∀ np' : Option Int, (∀ p, np' = some p → 0 ≤ p ∧ p ≤ 65535) →
        ∃ v, withPort e u np' 0 = .ok v ∧
          v.netloc = makeNetloc (q e Gen.QUOTER) user pw (some (bracket t)) (np'.map Int.toNat) false ∧
          explicitPort e v = .ok (np'.map Int.toNat) ∧ rawHost e v = .ok (some t) ∧
          rawUser e v = .ok user ∧ rawPassword e v = .ok pw) ∧
      -- with a ':' in `t` the stored text IS the `make_netloc` text: the `Written` theorems apply
      (58 ∈ t → Written id (pickleTwin u) user pw t np.port ∧ net e (pickleTwin u) = net e u) := by
  obtain ⟨user, pw, t, h1, h2, h3, h4, h5, h6⟩ :=
    C03_bracket_encodeUrl_shape e s u pt np T hs hu hpt hsp hhost hwrap hk hlow
  have hU : UserOK user := FixLemmas.userOK_of h2
  have hnet : net e u = .ok (preOf user pw t np.port) := by unfold net; rw [h5]; rfl
  have hune : u.netloc ≠ [] := by rw [h1]; exact BrHost.authTextB_ne_nil user pw t np.port
  have hemp : u.netloc.isEmpty = false := isEmpty_false_of_ne hune
  obtain ⟨v1, v2, v3, _, v5, v6⟩ := C17_port_views_of_net e u _ hnet
  obtain ⟨a1, a2, a3, _, _⟩ := EncTrue.acc_of_net e u _ hnet
  refine ⟨user, pw, t, h1, h4, h3.ok, hU, a3, v1, h6, v2, ?_, v5, ?_, ?_, ?_⟩
  · rw [v3]; cases np.port <;> simp [hemp]
  · simp only [hemp, Bool.not_false, Bool.and_true] at v6
    exact v6
  · intro np' hnp'
    have hg : EncTrue.GoodHost t := by
      by_cases h58 : 58 ∈ t
      · exact Or.inl ⟨h58, h3.ok.2.2.2⟩
      · exact Or.inr ⟨h58, h3.ok.2.2.1⟩
    obtain ⟨v, w1, _, w3, w4, w5, w6, _⟩ :=
      C17_with_port_readback e u _ np' hnet hune hnp' hU h3.ok.2.1 hg
    have hv := (C17_with_port_result e u np' hune hnp').1 _ hnet
    rw [hv] at w1
    cases w1
    refine ⟨_, hv, rfl, w3, ?_, w4, w5⟩
    rw [w6]
    simp [h3.ok.1]
  · intro h58
    have hw : Written id (pickleTwin u) user pw t np.port :=
      ⟨rfl, by show u.netloc = _; rw [h1, BrHost.authTextB_colon user pw np.port h58]; rfl, hU, h3.ok, h6⟩
    refine ⟨hw, ?_⟩
    rw [hnet, hw.eq]
    exact net_std e id user pw t np.port _ _ _ _ hU h3.ok h6

/-- GAPS 7, EMPTY host ("foo://user@:80/", "foo://:80/"; only for schemes that do not require a host, and those
    have no default port): raw_host is "", explicit_port the input port; is_default_port() is True iff no port is
    written and the stored authority is non-empty; host_port_subcomponent is "" or ":port"; str() prints the stored
    authority; with_port sets / clears and reads back. -/
theorem C17_empty_host_ctor_port_views (e : Env) (s : Str) (u : Url) (pt : Parts) (np : NetlocParts)
    (hs : PyStr s) (hu : encodeUrl e s = .ok u) (hpt : splitUrl e.o s = .ok pt) (hne : pt.netloc ≠ [])
    (hsp : splitNetloc e.o pt.netloc = .ok np) (hhost : np.host = none) :
    Gen.schemeRequiresHost.contains u.scheme = false ∧ defaultPort u.scheme = none ∧
    rawHost e u = .ok (some []) ∧ explicitPort e u = .ok np.port ∧ port e u = .ok np.port ∧
    isDefaultPort e u = .ok (np.port.isNone && !u.netloc.isEmpty) ∧
    hostPortSubcomponent e u = .ok (some (match np.port with
      | none => []
      | some p => [58] ++ natToStr p)) ∧
    str e u = .ok (unsplitResult u.scheme u.netloc
      (if u.path.isEmpty && !u.netloc.isEmpty && (!u.query.isEmpty || !u.fragment.isEmpty) then [47] else u.path)
      u.query u.fragment) ∧
    (u.netloc ≠ [] → ∀ np' : Option Int, (∀ p, np' = some p → 0 ≤ p ∧ p ≤ 65535) →
      ∃ v, withPort e u np' 0 = .ok v ∧
        v.netloc = makeNetloc (q e Gen.QUOTER) (cachedUser e np.user) (requoteOpt e np.password) (some [])
          (np'.map Int.toNat) false ∧
        explicitPort e v = .ok (np'.map Int.toNat) ∧ rawUser e v = rawUser e u ∧
        rawPassword e v = rawPassword e u) := by
  obtain ⟨pt', hpt', hsc, h2⟩ := ctor_cache_host e s u hu
  rw [hpt] at hpt'; cases hpt'
  obtain ⟨np', host0, host1, hnp, hh0, hh1, hpre, hnl⟩ := h2 hne
  rw [hsp] at hnp; cases hnp
  -- the host is empty and the scheme does not require one
  have hreq : Gen.schemeRequiresHost.contains pt.scheme = false ∧ host0 = [] := by
    unfold hostOr at hh0
    rw [hhost] at hh0
    simp only at hh0
    split at hh0
    · cases hh0
    · rename_i hc; cases hh0; exact ⟨by simpa using hc, rfl⟩
  obtain ⟨hreq, rfl⟩ := hreq
  rw [encodeHost_nil] at hh1; cases hh1
  rw [unbracket_rebracket_nil] at hpre
  have hdef : defaultPort u.scheme = none := by rw [hsc]; exact no_default_of_no_host_requirement _ hreq
  have hnet : net e u = .ok
      { rawHost := some [], explicitPort := np.port, rawUser := cachedUser e np.user,
        rawPassword := requoteOpt e np.password } := by
    unfold net; rw [hpre]; rfl
  obtain ⟨v1, v2, v3, _, v5, v6⟩ := C17_port_views_of_net e u _ hnet
  obtain ⟨a1, a2, a3, _, _⟩ := EncTrue.acc_of_net e u _ hnet
  refine ⟨by rw [hsc]; exact hreq, hdef, a3, v1, ?_, ?_, ?_, ?_, ?_⟩
  · rw [v2, hdef]; cases np.port <;> rfl
  · rw [v3, hdef]; cases np.port <;> simp
  · rw [v5, hdef]
    cases np.port with
    | none => rfl
    | some p => simp [bracket, rstripC, lstripSet, mem]
  · rw [v6, hdef]; cases np.port <;> simp
  · intro hun npn hnpn
    have hU : UserOK (cachedUser e np.user) :=
      userOK_cached e np.user
        (WfLemmas.splitNetloc_pyStr e.o pt.netloc (WfLemmas.splitUrl_pyStr e.o s hs pt hpt).1 np hsp).1
    obtain ⟨v, w1, _, w3, w4, w5, _⟩ := C17_with_port_readback e u _ npn hnet hun hnpn hU (by simp)
      (Or.inr ⟨by simp, by simp⟩)
    have hv := (C17_with_port_result e u npn hun hnpn).1 _ hnet
    rw [hv] at w1
    cases w1
    exact ⟨_, hv, by simp [fromParts, bracket, mem], w3, by rw [w4, a1], by rw [w5, a2]⟩

/-- GAPS 7, IDN host (`URL("scheme://hôte/path#frag")`, the host alone in the authority): under the run-time
    checked assumption `IdnaSaneAt` on the `idna` answer the result has `NetlocCanon`
    (`C03_idn_netlocCanon_ctor`), so ALL of sentence 2 holds in the `C17_headline_invariant_port_views` form.  (An IDN
    host followed by a port, userinfo, … is covered by `C17_ctor_port_views_any`.) -/
theorem C17_idn_ctor_port_views (e : Env) (sc h rp rf : Str) (vs : HumanLemmas.ValidScheme sc)
    (hi : IdnHostInput e.o h) (hs : IdnaSaneAt e.o h) (h35 : 35 ∉ rp) (h63 : 63 ∉ rp)
    (hc1 : HumanLemmas.Clean rp) (hc2 : HumanLemmas.Clean rf) (u : Url)
    (hu : encodeUrl e (sc ++ 58 :: 47 :: 47 :: (h ++ (47 :: rp ++ HumanLemmas.fragTail rf))) = .ok u)
    (hne : u.netloc ≠ []) :
    ∃ user pw a port, u.netloc = makeNetloc id user pw (some (bracket a)) port false ∧
      rawHost e u = .ok (some a) ∧ explicitPort e u = .ok port ∧ (∀ p, port = some p → p ≤ 65535) ∧
      str e u = .ok (unsplitResult u.scheme
        (match (generalizing := false) port with
          | some p => if some p = defaultPort u.scheme then makeNetloc id user pw (some (bracket a)) none false
                      else u.netloc
          | none => u.netloc)
        (if u.path.isEmpty && (!u.query.isEmpty || !u.fragment.isEmpty) then [47] else u.path) u.query u.fragment) ∧
      hostPortSubcomponent e u =
        .ok (some (match (generalizing := false) port with
          | none => bracket (rstripC 46 a)
          | some p =>
            if some p = defaultPort u.scheme then bracket (rstripC 46 a)
            else bracket (rstripC 46 a) ++ [58] ++ natToStr p)) ∧
      isDefaultPort e u = .ok (match (generalizing := false) port with
        | none => true
        | some p => decide (some p = defaultPort u.scheme)) ∧
      (∀ np : Option Int, (∀ p, np = some p → 0 ≤ p ∧ p ≤ 65535) →
        ∃ v, withPort e u np 0 = .ok v ∧ explicitPort e v = .ok (np.map Int.toNat)) :=
  C17_headline_invariant_port_views e u
    (C03_idn_netlocCanon_ctor e sc h rp rf vs hi hs h35 h63 hc1 hc2 u hu) hne

/-! ## Items 6 and 7: Python-level instances, counterexamples, non-vacuity -/

/-- GAPS 6, `with_port` on `encoded=True` oddities (`URL(s, encoded=True)` is `preEncodedUrl`), computed:
    * "user@:80" (empty host) → "user@:81", explicit_port 81;
    * ":pw@h" (empty user in front of a password) → ":pw@h:81", user None, password "pw", explicit_port 81;
    * "US:P@H:080" (upper case, port text "080") → "US:P@H:81": case kept, port text re-written;
    * "[v1.x]:80" → "v1.x:81": brackets of a host without ':' DROPPED, explicit_port 81, raw_host unchanged;
    * "a:b:c" (port text "b:c") → ValueError from reading the stored authority — after the argument checks:
      `with_port(True)` is still TypeError, `with_port(70000)` ValueError;
    * no authority → ValueError. -/
theorem C17_with_port_encoded_instances :
    let e : Env := ⟨.py, Oracles.empty⟩
    let wp := fun (s : String) (p : Option Int) (k : Nat) => (preEncodedUrl e s.toStr).bind (fun u => withPort e u p k)
    (wp "http://user@:80" (some 81) 0).map (·.netloc) = .ok "user@:81".toStr ∧
    (wp "http://user@:80" (some 81) 0).bind (explicitPort e) = .ok (some 81) ∧
    (wp "http://:pw@h" (some 81) 0).map (·.netloc) = .ok ":pw@h:81".toStr ∧
    (wp "http://:pw@h" (some 81) 0).bind (explicitPort e) = .ok (some 81) ∧
    (wp "http://:pw@h" (some 81) 0).bind (rawUser e) = .ok none ∧
    (wp "http://:pw@h" (some 81) 0).bind (rawPassword e) = .ok (some "pw".toStr) ∧
    (wp "http://US:P@H:080" (some 81) 0).map (·.netloc) = .ok "US:P@H:81".toStr ∧
    (wp "http://[v1.x]:80/" (some 81) 0).map (·.netloc) = .ok "v1.x:81".toStr ∧
    (wp "http://[v1.x]:80/" (some 81) 0).bind (explicitPort e) = .ok (some 81) ∧
    (wp "http://[v1.x]:80/" (some 81) 0).bind (rawHost e) = .ok (some "v1.x".toStr) ∧
    wp "http://a:b:c" (some 81) 0 = .error .valueError ∧
    wp "http://a:b:c" (some 1) 1 = .error .typeError ∧
    wp "http://a:b:c" (some 70000) 0 = .error .valueError ∧
    wp "/p" (some 81) 0 = .error .valueError := by
  decide +kernel

/-- GAPS 6, the COUNTEREXAMPLE to the read-back (malformed brackets that `split_url` accepts — same root as the
    known findings F-C03-bracket / F-C11-bracket): `URL("http://[v1.[x]:80", encoded=True)` has raw_host "v1.[x" and
    explicit_port 80; `.with_port(81)` stores "v1.[x:81", on which explicit_port is None and raw_host "x:81".
    Likewise `URL.build(scheme="http", authority="[[x]", encoded=True).with_port(81)`; and through the auto-encoding
    constructor `URL("http://[v1.[x]:80")` is ACCEPTED, stores "v1.[x:80" and caches raw_host "1.[" (the brackets are
    "stripped" from a text that never had them) — `.with_port(81)` stores "1.[:81" with explicit_port None.
    (`C17_with_port_readback_fails` is the general statement.) -/
theorem C17_with_port_readback_counterexample :
    let e : Env := ⟨.py, Oracles.empty⟩
    let u1 := preEncodedUrl e "http://[v1.[x]:80".toStr
    let u2 := build e { scheme := "http".toStr, authority := "[[x]".toStr, encoded := true }
    u1.bind (rawHost e) = .ok (some "v1.[x".toStr) ∧ u1.bind (explicitPort e) = .ok (some 80) ∧
    (u1.bind (fun u => withPort e u (some 81) 0)).map (·.netloc) = .ok "v1.[x:81".toStr ∧
    (u1.bind (fun u => withPort e u (some 81) 0)).bind (explicitPort e) = .ok none ∧
    (u1.bind (fun u => withPort e u (some 81) 0)).bind (rawHost e) = .ok (some "x:81".toStr) ∧
    u2.bind (rawHost e) = .ok (some "[x".toStr) ∧
    (u2.bind (fun u => withPort e u (some 81) 0)).map (·.netloc) = .ok "[x:81".toStr ∧
    (u2.bind (fun u => withPort e u (some 81) 0)).bind (explicitPort e) = .ok none ∧
    (encodeUrl e "http://[v1.[x]:80".toStr).map (·.netloc) = .ok "v1.[x:80".toStr ∧
    (encodeUrl e "http://[v1.[x]:80".toStr).bind (rawHost e) = .ok (some "1.[".toStr) ∧
    (encodeUrl e "http://[v1.[x]:80".toStr).bind (explicitPort e) = .ok (some 80) ∧
    ((encodeUrl e "http://[v1.[x]:80".toStr).bind (fun u => withPort e u (some 81) 0)).map (·.netloc)
      = .ok "1.[:81".toStr ∧
    ((encodeUrl e "http://[v1.[x]:80".toStr).bind (fun u => withPort e u (some 81) 0)).bind (explicitPort e)
      = .ok none := by
  decide +kernel

/-- GAPS 7, IPvFuture / bracketed non-IPv6 hosts through the constructor (both backends):
    `URL("http://[v1.x]:80/")` stores "[v1.x]:80", explicit_port 80, is_default_port() True,
    host_port_subcomponent "v1.x", and `str()` is "http://v1.x/" — port omitted AND brackets dropped (the authority
    is re-made from host_subcomponent; part of known finding F-C07-default-port); with port 81 nothing is re-made:
    "http://[v1.x]:81/", host_port_subcomponent "v1.x:81"; `.with_port(81)` / `.with_port(None)` store "v1.x:81" /
    "v1.x" (brackets dropped, explicit_port reads back).  With a ':' inside ("[v1.a:b]") the brackets stay. -/
theorem C17_bracket_ctor_instances (b : Backend) :
    let e : Env := ⟨b, Oracles.empty⟩
    let U := fun (s : String) => encodeUrl e s.toStr
    (U "http://[v1.x]:80/").map (·.netloc) = .ok "[v1.x]:80".toStr ∧
    (U "http://[v1.x]:80/").bind (explicitPort e) = .ok (some 80) ∧
    (U "http://[v1.x]:80/").bind (isDefaultPort e) = .ok true ∧
    (U "http://[v1.x]:80/").bind (hostPortSubcomponent e) = .ok (some "v1.x".toStr) ∧
    (U "http://[v1.x]:80/").bind (str e) = .ok "http://v1.x/".toStr ∧
    (U "http://[v1.x]:81/").bind (str e) = .ok "http://[v1.x]:81/".toStr ∧
    (U "http://[v1.x]:81/").bind (hostPortSubcomponent e) = .ok (some "v1.x:81".toStr) ∧
    (U "http://[v1.x]:81/").bind (isDefaultPort e) = .ok false ∧
    ((U "http://[v1.x]:80/").bind (fun u => withPort e u (some 81) 0)).map (·.netloc) = .ok "v1.x:81".toStr ∧
    ((U "http://[v1.x]:80/").bind (fun u => withPort e u (some 81) 0)).bind (explicitPort e) = .ok (some 81) ∧
    ((U "http://[v1.x]:80/").bind (fun u => withPort e u none 0)).map (·.netloc) = .ok "v1.x".toStr ∧
    (U "http://[v1.a:b]:80/").bind (str e) = .ok "http://[v1.a:b]/".toStr ∧
    (U "http://[v1.a:b]:80/").bind (hostPortSubcomponent e) = .ok (some "[v1.a:b]".toStr) ∧
    ((U "http://[v1.a:b]:80/").bind (fun u => withPort e u (some 81) 0)).map (·.netloc) = .ok "[v1.a:b]:81".toStr := by
  cases b <;> decide +kernel

/-- GAPS 7, empty host through the constructor (both backends): `URL("foo://user@:80/")` — explicit_port 80,
    `port` 80, is_default_port() False, host_port_subcomponent ":80", str() unchanged; `.with_port(None)` stores
    "user@" and is_default_port() becomes True; `URL("foo://:80/").with_port(None)` stores the EMPTY authority
    (raw_host None, is_default_port() False); `URL("http://user@:80/")` is ValueError (http requires a host). -/
theorem C17_empty_host_ctor_instances (b : Backend) :
    let e : Env := ⟨b, Oracles.empty⟩
    let U := fun (s : String) => encodeUrl e s.toStr
    (U "foo://user@:80/").bind (explicitPort e) = .ok (some 80) ∧
    (U "foo://user@:80/").bind (port e) = .ok (some 80) ∧
    (U "foo://user@:80/").bind (rawHost e) = .ok (some []) ∧
    (U "foo://user@:80/").bind (isDefaultPort e) = .ok false ∧
    (U "foo://user@:80/").bind (hostPortSubcomponent e) = .ok (some ":80".toStr) ∧
    (U "foo://user@:80/").bind (str e) = .ok "foo://user@:80/".toStr ∧
    ((U "foo://user@:80/").bind (fun u => withPort e u (some 81) 0)).bind (str e) = .ok "foo://user@:81/".toStr ∧
    ((U "foo://user@:80/").bind (fun u => withPort e u none 0)).map (·.netloc) = .ok "user@".toStr ∧
    ((U "foo://user@:80/").bind (fun u => withPort e u none 0)).bind (isDefaultPort e) = .ok true ∧
    ((U "foo://:80/").bind (fun u => withPort e u none 0)).map (·.netloc) = .ok [] ∧
    ((U "foo://:80/").bind (fun u => withPort e u none 0)).bind (rawHost e) = .ok none ∧
    ((U "foo://:80/").bind (fun u => withPort e u none 0)).bind (isDefaultPort e) = .ok false ∧
    U "http://user@:80/" = .error .valueError := by
  cases b <;> decide +kernel

/-! ### non-vacuity of the general theorems -/
section checks
private def e0 : Env := ⟨.py, Oracles.empty⟩

-- `PyIntForm`: " +8_0 " is ws ++ "+" ++ "8_0" ++ ws with value 80
example : PyIntForm " +8_0 ".toStr 80 :=
  ⟨[32], [43], "8_0".toStr, [32], 80, by decide, by decide, by decide, Or.inr (Or.inl rfl),
    PyIntBody.usnoc [56] 8 48 (PyIntBody.digit 56 (by decide)) (by decide), by decide⟩
example : pyIntAscii " +8_0 ".toStr = some 80 := (C17_pyInt_spec _ _).2
  ⟨[32], [43], "8_0".toStr, [32], 80, by decide, by decide, by decide, Or.inr (Or.inl rfl),
    PyIntBody.usnoc [56] 8 48 (PyIntBody.digit 56 (by decide)) (by decide), by decide⟩
example : EdgeFree "+8 0".toStr ∧ ¬ EdgeFree "8 ".toStr ∧ PyWs [32, 9, 11, 12, 13, 10, 28, 29, 30, 31] ∧
    ¬ PyWs [160] := by decide
-- `C17_pyInt_digits` on "080" / canonical "80"
example : (∀ c ∈ "080".toStr, isDigitC c = true) ∧ dv 0 "080".toStr = 80 ∧ natToStr 80 = "80".toStr ∧
    natToStr 80 ≠ "080".toStr := by decide
-- `C17_host_port_accepts`: h = "example.com", ps = " 80 "
example : (∃ np, splitNetloc e0.o ("example.com".toStr ++ [58] ++ " 80 ".toStr) = .ok np ∧ np.port = some 80) :=
  (C17_host_port_accepts e0.o "example.com".toStr " 80 ".toStr (by decide) (by decide) (by decide) (by decide)
    (by decide) (by decide) (by decide) 80).2 ⟨80, by decide +kernel, by decide, by decide, by decide⟩
-- `C17_portText_after_host` with userinfo and a bracketed host
example : portText ("u:p@".toStr ++ "[::1]".toStr ++ [58] ++ "8080".toStr) = "8080".toStr :=
  C17_portText_after_host "u:p@".toStr "[::1]".toStr "::1".toStr "8080".toStr
    (reads_bracketed "::1".toStr (by decide) (by decide)) (Or.inr ⟨"u:p".toStr, rfl⟩) (by decide) (by decide)
-- `C17_default_port_none`
example : defaultPort "foo".toStr = none := C17_default_port_none _ (by decide)
-- `C17_with_port_readback` / `_fails`: hypotheses on concrete URLs without cache
private def uOK : Url := fromParts "http".toStr "US:P@H:080".toStr "/p".toStr [] []
private def uBad : Url := fromParts "http".toStr "[v1.[x]:80".toStr [] [] []
private def nOK : NetPre :=
  { rawHost := some "H".toStr, explicitPort := some 80, rawUser := some "US".toStr, rawPassword := some "P".toStr }
private def nBad : NetPre :=
  { rawHost := some "v1.[x".toStr, explicitPort := some 80, rawUser := none, rawPassword := none }
example : net e0 uOK = .ok nOK ∧ uOK.netloc ≠ [] ∧ UserOK (some "US".toStr) ∧ 64 ∉ "H".toStr ∧
    EncTrue.GoodHost "H".toStr := by decide +kernel
example : net e0 uBad = .ok nBad ∧ uBad.netloc ≠ [] ∧ UserOK none ∧ 64 ∉ "v1.[x".toStr ∧ 91 ∈ "v1.[x".toStr ∧
    58 ∉ "v1.[x".toStr ∧ 93 ∉ "v1.[x".toStr := by decide +kernel
-- `C17_bracket_ctor_port_views`: the hypotheses for `URL("http://U@[V1.X]:80/")`
private def sB : Str := "http://U@[v1.X]:80/".toStr
private def ptB : Parts := { scheme := "http".toStr, netloc := "U@[v1.X]:80".toStr, path := "/".toStr, query := [], fragment := [] }
private def npB : NetlocParts := { user := some "U".toStr, password := none, host := some "v1.X".toStr, port := some 80 }
example : PyStr sB ∧ splitUrl e0.o sB = .ok ptB ∧ splitNetloc e0.o ptB.netloc = .ok npB ∧
    npB.host = some "v1.X".toStr ∧ 91 ∈ (rpartition 64 ptB.netloc).2.2 ∧ bracketCheck (lower "v1.X".toStr) = true ∧
    (encodeUrl e0 sB).map (·.netloc) = .ok "U@[v1.x]:80".toStr := by decide +kernel
example : BracketTextIn "v1.X".toStr := BrHost.bracketTextInB_sound (by decide +kernel)
-- `C17_empty_host_ctor_port_views`: the hypotheses for `URL("foo://user@:80/")`
private def sE : Str := "foo://user@:80/".toStr
private def ptE : Parts := { scheme := "foo".toStr, netloc := "user@:80".toStr, path := "/".toStr, query := [], fragment := [] }
private def npE : NetlocParts := { user := some "user".toStr, password := none, host := none, port := some 80 }
example : PyStr sE ∧ splitUrl e0.o sE = .ok ptE ∧ ptE.netloc ≠ [] ∧ splitNetloc e0.o ptE.netloc = .ok npE ∧
    npE.host = none ∧ (encodeUrl e0 sE).map (·.netloc) = .ok "user@:80".toStr := by decide +kernel
-- `C17_idn_ctor_port_views`: the hypotheses for `URL("http://bücher/a/b#f")` on the sample oracle table …
private def eS : Env := { b := .c, o := C16_idn_sampleOracle }
example : HumanLemmas.ValidScheme "http".toStr ∧ IdnHostInput eS.o C16_idn_buecher ∧
    IdnaSaneAt eS.o C16_idn_buecher ∧ 35 ∉ "a/b".toStr ∧ 63 ∉ "a/b".toStr ∧ HumanLemmas.Clean "a/b".toStr ∧
    HumanLemmas.Clean "f".toStr :=
  ⟨by decide, ⟨by decide, by decide, rfl, ⟨false, rfl⟩, by decide⟩, C16_idn_sane_satisfiable.1.at (by decide),
    by decide, by decide, by unfold HumanLemmas.Clean; decide, by unfold HumanLemmas.Clean; decide⟩
-- … and an IDN host WITH a port (outside `IdnHostInput`; covered by `C17_ctor_port_views_any`):
-- `URL("http://bücher:80/a")`: explicit_port 80, str() omits it, with_port(81) shows it
example :
    (encodeUrl eS ("http://".toStr ++ C16_idn_buecher ++ ":80/a".toStr)).bind (explicitPort eS) = .ok (some 80) ∧
    (encodeUrl eS ("http://".toStr ++ C16_idn_buecher ++ ":80/a".toStr)).bind (str eS)
      = .ok "http://xn--bcher-kva/a".toStr ∧
    ((encodeUrl eS ("http://".toStr ++ C16_idn_buecher ++ ":80/a".toStr)).bind
      (fun u => withPort eS u (some 81) 0)).bind (str eS) = .ok "http://xn--bcher-kva:81/a".toStr := by
  decide +kernel
end checks

end Yarl
