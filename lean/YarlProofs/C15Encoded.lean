import YarlProofs.C15More
import YarlProofs.C13
import YarlProofs.C07Encoded
import YarlProofs.Lemmas.EagerLemmas
/-!
# C15 — dot segments and `encoded=True`   (closes C15Headline GAPS 5 and the `encoded=True` half of GAPS 4)

Property C15 says "whenever a URL has an authority, its path — however produced — contains no '.' or '..'
segment".  The `encoded=True` entry points are exempt by design; this file states EXACTLY what they do, and what
the ordinary modifiers do to a URL that carries dot segments under an authority (only obtainable through
`encoded=True`).

## 1. the entry points (`C15_encoded_entry_points`)
 * `URL(s, encoded=True)`: path = the Appendix B path, verbatim — never normalised;
 * `URL.build(path=p, encoded=True)`: path = `p`, verbatim — never normalised, not even required to be rooted;
 * `with_path(p, encoded=True)`: path = `p`, rooted with '/' when non-empty and rootless — never normalised;
 * `joinpath(*ps, encoded=True)` / `_make_child(ps, encoded=True)`: `C15_make_child_any_mode` — in BOTH modes
   `_make_child` is ONE function of the per-argument text `f p` (`f = PATH_QUOTER` without, `f = id` with
   `encoded=True`): it fails iff an argument starts with '/', the new segments are the '/'-pieces of the `f p`
   (all arguments but the last lose a trailing empty piece), and — under an authority — the WHOLE merged segment
   list is normalised iff some `f p` contains a '.'.  So `encoded=True` does NOT switch normalisation off here; it
   only replaces the quoter by the identity.

## 2. URLs derived from one that has dot segments under an authority (`C15_derived_…`)
 * scheme / authority / query / fragment modifiers (`with_scheme`, `with_user`, `with_password`, `with_host`,
   `with_port`, `with_query`, `extend_query`, `update_query`, `without_query_params`, `with_fragment`) and
   `relative()` keep the stored path VERBATIM — the dot segments stay;
 * `/` and `joinpath` (either mode): if some (quoted) argument contains '.', the whole merged path is normalised
   and the result has NO dot segment; otherwise the old segments are all kept (only a trailing empty one is
   replaced), so the old dot segments STAY;
 * `parent`, `with_name`, `with_suffix` work on the raw '/'-segments: all segments but the last are kept verbatim
   (`parent` drops the last one, `with_name` / `with_suffix` replace it) — dot segments before the last one STAY;
 * `join(ref)`: with a non-empty reference path (same scheme, reference without authority) the merged path is
   normalised — no dot segment left; with an EMPTY reference path the base path is kept verbatim (dots stay); a
   reference with its own authority or another scheme is taken as it is.
-/
set_option linter.unusedVariables false
namespace Yarl
open PathLemmas PathAlg WfLemmas EntryLemmas DotMore

/-! ## 1. the entry points -/

/-- new segments of `_make_child` for the per-argument text `f p` (`DotMore.childSegs e = C15_childSegsF (PATH_QUOTER)`) -/
def C15_childSegsF (f : Str → Str) (paths : List Str) : List Str :=
  paths.dropLast.flatMap (fun p => stripTrail (splitOn 47 (f p))) ++
  (match paths.getLast? with
   | some p => splitOn 47 (f p)
   | none => [])

/-- `needs_normalize`: some per-argument text contains a '.' -/
def C15_anyDotF (f : Str → Str) (ps : List Str) : Bool := ps.any (fun p => mem 46 (f p))

/-- the per-argument text of `_make_child(paths, encoded)` -/
def C15_childText (e : Env) (encoded : Bool) : Str → Str := if encoded then id else q e Gen.PATH_QUOTER

namespace EncTrue

def newSegsF (f : Str → Str) : Bool → List Str → List Str
  | _, [] => []
  | last, p :: rest => newSegsF f false rest ++ (if last then splitOn 47 (f p) else stripTrail (splitOn 47 (f p)))

theorem go_specF (e : Env) (enc : Bool) : ∀ (ps : List Str) (last : Bool) (parsed : List Str) (nn : Bool),
    makeChild.go e enc ps last parsed nn =
      if ps.any (fun p => p.head? = some 47) then .error .valueError
      else .ok ((newSegsF (C15_childText e enc) last ps ++ parsed.reverse).reverse,
                nn || C15_anyDotF (C15_childText e enc) ps) := by
  intro ps
  induction ps with
  | nil =>
    intro last parsed nn
    simp [makeChild.go, newSegsF, C15_anyDotF, pure, Except.pure]
  | cons p rest ih =>
    intro last parsed nn
    simp only [makeChild.go]
    by_cases hh : p.head? = some 47
    · simp [hh]
    · have hf : (if enc = true then p else q e Gen.PATH_QUOTER p) = C15_childText e enc p := by
        unfold C15_childText; cases enc <;> rfl
      simp only [hh, if_false, hf, List.any_cons, decide_false, Bool.false_or]
      rw [add_eq, ih]
      split
      · rfl
      · congr 2
        · simp [newSegsF]
        · simp [C15_anyDotF, Bool.or_assoc]

theorem newSegsF_false (f : Str → Str) (ps : List Str) :
    newSegsF f false ps = ps.reverse.flatMap (fun p => stripTrail (splitOn 47 (f p))) := by
  induction ps with
  | nil => rfl
  | cons p rest ih => simp [newSegsF, ih]

theorem newSegsF_childSegsF (f : Str → Str) (paths : List Str) :
    newSegsF f true paths.reverse = C15_childSegsF f paths := by
  unfold C15_childSegsF
  rcases List.eq_nil_or_concat paths with rfl | ⟨init, l, rfl⟩
  · rfl
  · simp [newSegsF, newSegsF_false]

theorem segs_childSegsF (f : Str → Str) (paths : List Str) : Segs (C15_childSegsF f paths) := by
  intro s hs
  unfold C15_childSegsF at hs
  rcases List.mem_append.1 hs with h | h
  · obtain ⟨p, _, hp⟩ := List.mem_flatMap.1 h
    exact segs_stripTrail (segs_splitOn _) s hp
  · split at h
    · exact segs_splitOn _ s h
    · simp at h

/-- a dot segment is not the empty segment, so `stripTrail` keeps it -/
theorem dot_mem_stripTrail {l : List Str} {s : Str} (hs : s ∈ l) (hne : s ≠ []) : s ∈ stripTrail l := by
  unfold stripTrail
  split
  · rename_i hl
    rcases List.eq_nil_or_concat l with rfl | ⟨init, x, rfl⟩
    · simp at hs
    · simp only [List.concat_eq_append] at hs hl ⊢
      rw [List.getLast?_concat] at hl
      cases hl
      simp only [List.dropLast_concat]
      rcases List.mem_append.1 hs with h | h
      · exact h
      · simp at h; exact absurd h hne
  · exact hs

theorem dot_ne_nil {s : Str} (h : s = dot ∨ s = dotdot) : s ≠ [] := by
  rcases h with rfl | rfl <;> simp [dot, dotdot]

/-- the old path's dot segments are in `base u` -/
theorem dots_in_base (u : Url) {s : Str} (hs : s ∈ splitOn 47 u.path) (hd : s = dot ∨ s = dotdot) : s ∈ base u := by
  unfold base
  cases hp : u.path with
  | nil =>
    rw [hp] at hs
    simp [splitOn] at hs
    exact absurd hs (dot_ne_nil hd)
  | cons c r =>
    simp only [List.isEmpty_cons, Bool.false_eq_true, if_false]
    rw [hp] at hs
    exact dot_mem_stripTrail hs (dot_ne_nil hd)

end EncTrue
open EncTrue

/-- `_make_child(paths, encoded)` in closed form, for BOTH values of `encoded`: ValueError iff some argument starts
    with '/', otherwise `childOf u X nn` (Lemmas/PathAlg.lean: merge the old segments without a trailing empty one
    with `X`, root them under an authority, and — under an authority, iff `nn` — run `normalize_path_segments` over
    the WHOLE list) where `X` are the '/'-pieces of the per-argument texts and `nn` says whether one of them
    contains '.'.  `encoded=True` only replaces PATH_QUOTER by the identity (`C15_childText`). -/
theorem C15_make_child_any_mode (e : Env) (u : Url) (paths : List Str) (encoded : Bool) :
    makeChild e u paths encoded =
      if paths.any (fun p => p.head? = some 47) then .error .valueError
      else .ok (childOf u (C15_childSegsF (C15_childText e encoded) paths)
                          (C15_anyDotF (C15_childText e encoded) paths)) := by
  rw [makeChild_eq, go_specF]
  simp only [List.any_reverse]
  split
  · rfl
  · simp only [Except.map, List.reverse_nil, List.append_nil, List.reverse_reverse, Bool.false_or,
      newSegsF_childSegsF]
    congr 2
    simp [C15_anyDotF]

/-- … in particular `joinpath(*ps, encoded=True)` is `joinpath(*ps)` with the identity in place of the quoter: the
    SAME normalisation rule (a '.' anywhere in an argument normalises the whole merged path under an authority) -/
theorem C15_encoded_make_child (e : Env) (u : Url) (paths : List Str) :
    makeChild e u paths true =
      (if paths.any (fun p => p.head? = some 47) then .error .valueError
       else .ok (childOf u (C15_childSegsF id paths) (paths.any (mem 46)))) ∧
    makeChild e u paths false =
      (if paths.any (fun p => p.head? = some 47) then .error .valueError
       else .ok (childOf u (C15_childSegsF (q e Gen.PATH_QUOTER) paths)
                  (paths.any (fun p => mem 46 (q e Gen.PATH_QUOTER p))))) := by
  constructor
  · rw [C15_make_child_any_mode]; rfl
  · rw [C15_make_child_any_mode]; rfl

/-- what `childOf` stores (restated from Lemmas/PathAlg.lean so that this file can be read alone) -/
theorem C15_childOf_path (u : Url) (X : List Str) (nn : Bool) :
    (childOf u X nn).scheme = u.scheme ∧ (childOf u X nn).netloc = u.netloc ∧
    (childOf u X nn).query = [] ∧ (childOf u X nn).fragment = [] ∧
    (childOf u X nn).path =
      (if u.netloc = [] ∨ nn = false then joinC 47 (root u.netloc (base u ++ X))
       else fixRoot (joinC 47 (normalizePathSegments (root u.netloc (base u ++ X))))) := by
  unfold childOf
  by_cases hn : u.netloc = [] <;> cases nn <;> simp [hn, fromParts]

/-- GAPS 5, general form.  The four `encoded=True` entry points:
    the constructor, `build` and `with_path` store the supplied path VERBATIM (`with_path` roots a rootless
    non-empty one) and never remove a dot segment, with or without authority; `joinpath(…, encoded=True)` is
    `C15_encoded_make_child`. -/
theorem C15_encoded_entry_points (e : Env) :
    (∀ s u, preEncodedUrl e s = .ok u → u.path = (Rfc.appendixB Gen.schemeChars (cleanUrl s)).path) ∧
    (∀ a u, a.encoded = true → build e a = .ok u → u.path = a.path ∧ u.netloc = C07_encBuildNetloc a) ∧
    (∀ u p kq kf, (withPath e u p true kq kf).path = fixRoot p ∧ (withPath e u p true kq kf).netloc = u.netloc ∧
        (withPath e u p true kq kf).scheme = u.scheme) ∧
    (∀ u ps, makeChild e u ps true =
      if ps.any (fun p => p.head? = some 47) then .error .valueError
      else .ok (childOf u (C15_childSegsF id ps) (ps.any (mem 46)))) := by
  refine ⟨?_, ?_, ?_, fun u ps => (C15_encoded_make_child e u ps).1⟩
  · intro s u h
    have := (C07_preencoded_accessors e s u h).2.2.1
    exact this
  · intro a u ha h
    obtain ⟨_, _, h2, h3, _⟩ := C07_build_encoded_verbatim e a u ha h
    exact ⟨h3, h2⟩
  · intro u p kq kf
    refine ⟨?_, rfl, rfl⟩
    unfold withPath fixRoot
    simp only [Bool.not_true, Bool.false_eq_true, if_false, fromParts]
    split <;> split <;> simp_all

/-- hence: with `encoded=True` the constructor / `build` / `with_path` keep every dot segment of a rooted argument
    under an authority (the exemption the property text does not mention) -/
theorem C15_encoded_keeps_dot_segments (e : Env) (u : Url) (p : Str) (kq kf : Bool)
    (hp : ¬ NoDotSegments (47 :: p)) :
    ¬ NoDotSegments (withPath e u (47 :: p) true kq kf).path ∧
    (∀ a v, a.encoded = true → a.path = 47 :: p → build e a = .ok v → ¬ NoDotSegments v.path) := by
  constructor
  · rw [((C15_encoded_entry_points e).2.2.1 u (47 :: p) kq kf).1]
    exact hp
  · intro a v ha hap h
    rw [((C15_encoded_entry_points e).2.1 a v ha h).1, hap]
    exact hp

/-! ## 2. derived URLs -/

open EagerLemmas in
/-- the scheme / authority / query / fragment modifiers and `relative()` copy the stored path: a URL with dot
    segments keeps them (whatever its authority is — arbitrary text, pre-filled cache or not) -/
theorem C15_derived_path_kept (e : Env) (u : Url) :
    (∀ x v, withScheme e u x = .ok v → v.path = u.path) ∧
    (∀ x v, withUser e u x = .ok v → v.path = u.path) ∧
    (∀ x v, withPassword e u x = .ok v → v.path = u.path) ∧
    (∀ x v, withHost e u x = .ok v → v.path = u.path) ∧
    (∀ x k v, withPort e u x k = .ok v → v.path = u.path) ∧
    (∀ a v, withQuery e u a = .ok v → v.path = u.path) ∧
    (∀ a v, extendQuery e u a = .ok v → v.path = u.path) ∧
    (∀ a v, updateQuery e u a = .ok v → v.path = u.path) ∧
    (∀ ns v, withoutQueryParams e u ns = .ok v → v.path = u.path) ∧
    (∀ f, (withFragment e u f).path = u.path) ∧
    (∀ v, relative u = .ok v → v.path = u.path) := by
  refine ⟨?_, ?_, ?_, ?_, ?_, ?_, ?_, ?_, ?_, ?_, ?_⟩
  · intro x v h
    have : AllOk (fun v : Url => v.path = u.path) (withScheme e u x) := by unfold withScheme; allok
    exact this.h v h
  · intro x v h
    have : AllOk (fun v : Url => v.path = u.path) (withUser e u x) := by unfold withUser; allok
    exact this.h v h
  · intro x v h
    have : AllOk (fun v : Url => v.path = u.path) (withPassword e u x) := by unfold withPassword; allok
    exact this.h v h
  · intro x v h
    have : AllOk (fun v : Url => v.path = u.path) (withHost e u x) := by unfold withHost; allok
    exact this.h v h
  · intro x k v h
    have : AllOk (fun v : Url => v.path = u.path) (withPort e u x k) := by unfold withPort; allok
    exact this.h v h
  · intro a v h
    have : AllOk (fun v : Url => v.path = u.path) (withQuery e u a) := by unfold withQuery; allok
    exact this.h v h
  · intro a v h
    have : AllOk (fun v : Url => v.path = u.path) (extendQuery e u a) := by unfold extendQuery; allok
    exact this.h v h
  · intro a v h
    have : AllOk (fun v : Url => v.path = u.path) (updateQuery e u a) := by unfold updateQuery; allok
    exact this.h v h
  · intro ns v h
    have : AllOk (fun v : Url => v.path = u.path) (withoutQueryParams e u ns) := by
      unfold withoutQueryParams withQuery; allok
    exact this.h v h
  · intro f
    unfold withFragment
    simp only
    split <;> split <;> rfl
  · intro v h
    have : AllOk (fun v : Url => v.path = u.path) (relative u) := by unfold relative; allok
    exact this.h v h

/-- `/` and `joinpath` (either mode) on a URL with an authority:
    (a) if some per-argument text contains a '.', the WHOLE merged path — old dot segments included — is normalised:
        the result has no dot segment at all;
    (b) otherwise nothing is normalised: every old segment other than a trailing empty one is still a segment of
        the result, so every old dot segment is still there. -/
theorem C15_derived_make_child (e : Env) (u v : Url) (paths : List Str) (encoded : Bool)
    (hn : u.netloc ≠ []) (h : makeChild e u paths encoded = .ok v) :
    let f := C15_childText e encoded
    let X := C15_childSegsF f paths
    (C15_anyDotF f paths = true →
      v.path = fixRoot (joinC 47 (normalizePathSegments (root u.netloc (base u ++ X)))) ∧ NoDotSegments v.path) ∧
    (C15_anyDotF f paths = false →
      v.path = joinC 47 (root u.netloc (base u ++ X)) ∧
      (∀ s ∈ base u, s ∈ splitOn 47 v.path) ∧
      (¬ NoDotSegments u.path → ¬ NoDotSegments v.path)) := by
  dsimp only
  rw [C15_make_child_any_mode] at h
  split at h
  · cases h
  · have hMs : Segs (root u.netloc (base u ++ C15_childSegsF (C15_childText e encoded) paths)) :=
      segs_root _ (segs_append (segs_base u) (segs_childSegsF _ paths))
    cases hd : C15_anyDotF (C15_childText e encoded) paths
    · rw [hd] at h
      cases h
      have hp := (C15_childOf_path u (C15_childSegsF (C15_childText e encoded) paths) false).2.2.2.2
      simp only [or_true, if_true] at hp
      refine ⟨fun h => (by cases h), fun _ => ?_⟩
      have hmem : ∀ s ∈ base u,
          s ∈ splitOn 47 (childOf u (C15_childSegsF (C15_childText e encoded) paths) false).path := by
        intro s hs
        rw [hp]
        have hM : s ∈ root u.netloc (base u ++ C15_childSegsF (C15_childText e encoded) paths) := by
          unfold root
          split
          · exact List.mem_cons_of_mem _ (List.mem_append_left _ hs)
          · exact List.mem_append_left _ hs
        have hne := List.ne_nil_of_mem hM
        rw [splitOn_joinC _ hne hMs]
        exact hM
      refine ⟨hp, hmem, ?_⟩
      intro hdots hv
      apply hdots
      intro s hs
      by_cases hd' : s = dot ∨ s = dotdot
      · exact absurd (hv s (hmem s (dots_in_base u hs hd'))) (by
          rcases hd' with rfl | rfl <;> simp)
      · exact ⟨fun h => hd' (Or.inl h), fun h => hd' (Or.inr h)⟩
    · rw [hd] at h
      cases h
      have hp := (C15_childOf_path u (C15_childSegsF (C15_childText e encoded) paths) true).2.2.2.2
      simp only [hn, Bool.true_eq_false, or_self, if_false] at hp
      refine ⟨fun _ => ⟨hp, ?_⟩, fun h => (by cases h)⟩
      rw [hp]
      exact noDotSegments_fixRoot
        (noDotSegments_joinC _ (normalizePathSegments_no_sep _ hMs) (noDots_normalizePathSegments _))

/-- `parent`: for a rooted path with segments `S` (path = "/" + "/".join(S)) other than "/", under an authority the
    result's path is "/" + "/".join(S without its last element), query and fragment cleared: no normalisation, the
    remaining segments verbatim.  (Path "/": the URL itself / its query and fragment cleared.) -/
theorem C15_derived_parent (u : Url) (r : Str) (hn : u.netloc ≠ []) (hp : u.path = 47 :: r) (hr : r ≠ []) :
    (parent u).path = joinC 47 ([] :: (splitOn 47 r).dropLast) ∧
    (parent u).netloc = u.netloc ∧ (parent u).scheme = u.scheme ∧
    splitOn 47 (parent u).path = (splitOn 47 u.path).dropLast := by
  have hS := splitOn_ne_nil 47 r
  have hsp : splitOn 47 (47 :: r) = [] :: splitOn 47 r := by simp [splitOn]
  have hdl : ([] :: splitOn 47 r).dropLast = [] :: (splitOn 47 r).dropLast := by
    obtain ⟨a, b, hab⟩ := List.exists_cons_of_ne_nil hS
    rw [hab]; rfl
  have hne : (u.path.isEmpty || decide (u.path = [47])) = false := by
    rw [hp]
    cases r with
    | nil => exact absurd rfl hr
    | cons c t => simp
  have hpath : (parent u).path = joinC 47 ([] :: (splitOn 47 r).dropLast) := by
    unfold parent
    simp only [hne, Bool.false_eq_true, if_false, fromParts]
    rw [hp, hsp, hdl]
    have hn' : u.netloc.isEmpty = false := by cases hnl : u.netloc <;> simp_all
    simp [hn']
  refine ⟨hpath, ?_, ?_, ?_⟩
  · unfold parent; simp only [hne, Bool.false_eq_true, if_false, fromParts]
  · unfold parent; simp only [hne, Bool.false_eq_true, if_false, fromParts]
  · rw [hpath, hp, hsp, hdl]
    exact splitOn_joinC _ (by simp) (segs_cons (by simp) (segs_dropLast (segs_splitOn r)))

/-- `_with_raw_name` (the common tail of `with_name` and `with_suffix`): under an authority, for a rooted path with
    segments `S`, the new path is "/" + "/".join(S[:-1] + [name]) — every segment but the last verbatim. -/
theorem C15_derived_with_raw_name (u v : Url) (r nm : Str) (kq kf : Bool) (hn : u.netloc ≠ [])
    (hp : u.path = 47 :: r) (h47 : 47 ∉ nm) (h : withRawName u nm kq kf = .ok v) :
    v.path = joinC 47 ([] :: ((splitOn 47 r).dropLast ++ [nm])) ∧ v.netloc = u.netloc ∧
    splitOn 47 v.path = (splitOn 47 u.path).dropLast ++ [nm] := by
  have hS := splitOn_ne_nil 47 r
  have hsp : splitOn 47 (47 :: r) = [] :: splitOn 47 r := by simp [splitOn]
  have hdl : ([] :: splitOn 47 r).dropLast = [] :: (splitOn 47 r).dropLast := by
    obtain ⟨a, b, hab⟩ := List.exists_cons_of_ne_nil hS
    rw [hab]; rfl
  have hn' : u.netloc.isEmpty = false := by cases hnl : u.netloc <;> simp_all
  have hparts : rawParts u = [47] :: splitOn 47 r := by
    unfold rawParts; simp [hn', hp]
  have hlen : ([47] :: splitOn 47 r).length ≠ 1 := by
    obtain ⟨a, b, hab⟩ := List.exists_cons_of_ne_nil hS
    rw [hab]; simp
  have hdl2 : ([47] :: splitOn 47 r).dropLast = [47] :: (splitOn 47 r).dropLast := by
    obtain ⟨a, b, hab⟩ := List.exists_cons_of_ne_nil hS
    rw [hab]; rfl
  unfold withRawName at h
  simp only [hparts, hn', Bool.not_false, if_true, hlen, if_false, hdl2, List.cons_append, List.drop_succ_cons,
    List.drop_zero, bind, Except.bind, pure, Except.pure, Except.ok.injEq] at h
  subst h
  refine ⟨rfl, rfl, ?_⟩
  simp only [fromParts]
  rw [hp, hsp, hdl]
  exact splitOn_joinC _ (by simp)
    (segs_cons (by simp) (segs_append (segs_dropLast (segs_splitOn r)) (segs_single h47)))

/-- `with_name(n)` and `with_suffix(s)` under an authority, rooted path: all '/'-segments but the last are kept
    verbatim (dot segments included) and the last one is replaced by a slash-free name; nothing is normalised.
    (`PyStr`: the argument is a Python string — code points ≤ 0x10FFFF; model artefact.) -/
theorem C15_derived_with_name_suffix (e : Env) (u v : Url) (r : Str) (kq kf : Bool) (hn : u.netloc ≠ [])
    (hp : u.path = 47 :: r) :
    (∀ nm, PyStr nm → withName e u nm kq kf = .ok v →
      splitOn 47 v.path = (splitOn 47 u.path).dropLast ++ [q e Gen.PATH_QUOTER nm] ∧ v.netloc = u.netloc) ∧
    (∀ sfx, PyStr sfx → withSuffix e u sfx kq kf = .ok v →
      ∃ n', 47 ∉ n' ∧ splitOn 47 v.path = (splitOn 47 u.path).dropLast ++ [n'] ∧ v.netloc = u.netloc) := by
  constructor
  · intro nm hpy h
    unfold withName at h
    split at h
    · cases h
    · rename_i h47
      simp only at h
      split at h
      · cases h
      · have h47' : 47 ∉ nm := by
          intro hm; exact h47 (NetlocLemmas.mem_iff.2 hm)
        have hq47 := C13_path_quoter_no_slash e nm hpy h47'
        obtain ⟨_, h2, h3⟩ := C15_derived_with_raw_name u v r _ kq kf hn hp hq47 h
        exact ⟨h3, h2⟩
  · intro sfx hpy h
    unfold withSuffix at h
    split at h
    · cases h
    · cases hnm : rawName u with
      | error err => simp [hnm, bind, Except.bind] at h
      | ok n =>
        have hn47 := rawName_no_slash u n hnm
        simp only [hnm, bind, Except.bind] at h
        split at h
        · cases h
        · split at h
          · cases h
          · rename_i h47
            have h47' : 47 ∉ sfx := by
              intro hm; exact h47 (NetlocLemmas.mem_iff.2 hm)
            have hq47 := C13_path_quoter_no_slash e sfx hpy h47'
            cases hsf : rawSuffix u with
            | error err => simp [hsf] at h
            | ok old =>
              simp only [hsf] at h
              by_cases ho : old.isEmpty = true
              · simp only [ho, if_true] at h
                by_cases hdd : n ++ q e Gen.PATH_QUOTER sfx = dot ∨ n ++ q e Gen.PATH_QUOTER sfx = dotdot
                · rw [if_pos hdd] at h; cases h
                · rw [if_neg hdd] at h
                  have hn' : 47 ∉ n ++ q e Gen.PATH_QUOTER sfx := by simp [hn47, hq47]
                  obtain ⟨_, h2, h3⟩ := C15_derived_with_raw_name u v r _ kq kf hn hp hn' h
                  exact ⟨_, hn', h3, h2⟩
              · simp only [ho, Bool.false_eq_true, if_false] at h
                by_cases hdd : List.take (n.length - old.length) n ++ q e Gen.PATH_QUOTER sfx = dot ∨
                    List.take (n.length - old.length) n ++ q e Gen.PATH_QUOTER sfx = dotdot
                · rw [if_pos hdd] at h; cases h
                · rw [if_neg hdd] at h
                  have hn' : 47 ∉ List.take (n.length - old.length) n ++ q e Gen.PATH_QUOTER sfx := by
                    simp only [List.mem_append, not_or]
                    exact ⟨fun hm => hn47 (List.mem_of_mem_take hm), hq47⟩
                  obtain ⟨_, h2, h3⟩ := C15_derived_with_raw_name u v r _ kq kf hn hp hn' h
                  exact ⟨_, hn', h3, h2⟩

/-- `join(ref)` in the merge branch (reference with the base's scheme — or none —, scheme in `uses_relative`, reference
    without authority): with a NON-EMPTY reference path the merged path is normalised whenever it contains a '.', so
    the result has no dot segment whatever the base carried; with an EMPTY reference path the base path (and
    authority) is copied verbatim — the base's dot segments stay. -/
theorem C15_derived_join (e : Env) (base ref : Url)
    (hsch : ref.scheme = [] ∨ ref.scheme = base.scheme)
    (hrel : Gen.usesRelative.contains base.scheme = true)
    (hauth : ref.netloc = [] ∨ Gen.usesAuthority.contains base.scheme = false) :
    (ref.path ≠ [] → NoDotSegments (join e base ref).path) ∧
    (ref.path = [] → (join e base ref).path = base.path ∧ (join e base ref).netloc = base.netloc) := by
  refine ⟨C15_entry_join_merge e base ref hsch hrel hauth, ?_⟩
  intro hp
  have hs : (if (!ref.scheme.isEmpty) = true then ref.scheme else base.scheme) = base.scheme := by
    rcases hsch with h | h
    · simp [h]
    · split
      · exact h
      · rfl
  unfold join
  simp only [hs, hrel, ne_eq, not_true_eq_false, decide_false, Bool.not_true, Bool.or_self,
    Bool.false_eq_true, if_false]
  split
  · rename_i hc
    exfalso
    simp only [Bool.and_eq_true, Bool.not_eq_true', List.isEmpty_eq_false_iff] at hc
    rcases hauth with h | h
    · exact hc.1 h
    · rw [h] at hc; exact absurd hc.2 (by decide)
  · simp [fromParts, hp]

/-- `join(ref)` outside the merge branch takes the reference as it is — dot segments of a reference made with
    `encoded=True` included: another scheme / a scheme outside `uses_relative` gives `ref` itself; a reference with
    its own authority (scheme in `uses_netloc`) gives `ref`'s authority and path. -/
theorem C15_derived_join_ref_verbatim (e : Env) (base ref : Url) :
    ((ref.scheme ≠ [] ∧ ref.scheme ≠ base.scheme) → join e base ref = ref) ∧
    ((ref.scheme = [] ∨ ref.scheme = base.scheme) → Gen.usesRelative.contains base.scheme = false →
      join e base ref = ref) ∧
    ((ref.scheme = [] ∨ ref.scheme = base.scheme) → Gen.usesRelative.contains base.scheme = true →
      ref.netloc ≠ [] → Gen.usesAuthority.contains base.scheme = true →
      (join e base ref).path = ref.path ∧ (join e base ref).netloc = ref.netloc) := by
  have hs : (ref.scheme = [] ∨ ref.scheme = base.scheme) →
      (if (!ref.scheme.isEmpty) = true then ref.scheme else base.scheme) = base.scheme := by
    intro hsch
    rcases hsch with h | h
    · simp [h]
    · split
      · exact h
      · rfl
  refine ⟨?_, ?_, ?_⟩
  · rintro ⟨h1, h2⟩
    have h1' : ref.scheme.isEmpty = false := by cases hr : ref.scheme <;> simp_all
    unfold join
    simp [h1', h2]
  · intro hsch hrel
    unfold join
    simp only [hs hsch, hrel, ne_eq, not_true_eq_false, decide_false, Bool.not_false, Bool.or_true, if_true]
  · intro hsch hrel hn ha
    have hn' : ref.netloc.isEmpty = false := by cases hr : ref.netloc <;> simp_all
    unfold join
    simp only [hs hsch, hrel, ne_eq, not_true_eq_false, decide_false, Bool.not_true, Bool.or_self, Bool.false_eq_true,
      if_false, hn', ha, Bool.not_false, Bool.and_self, if_true, fromParts, and_self]

/-! ## 3. witnesses (both backends; the Python calls are in the comments — all compared with the real library) -/

section witnesses
private instance {ε α : Type} [DecidableEq ε] [DecidableEq α] : DecidableEq (Except ε α) := fun a b =>
  match a, b with
  | .ok x, .ok y => if h : x = y then isTrue (by rw [h]) else isFalse (by intro hc; cases hc; exact h rfl)
  | .error x, .error y => if h : x = y then isTrue (by rw [h]) else isFalse (by intro hc; cases hc; exact h rfl)
  | .ok _, .error _ => isFalse (by intro hc; cases hc)
  | .error _, .ok _ => isFalse (by intro hc; cases hc)

/-- `u = URL('http://U:P@H:080/a/../b?x y#é', encoded=True)`: an authority AND dot segments -/
private def uA : Url := fromParts "http".toStr "U:P@H:080".toStr "/a/../b".toStr "x y".toStr [233]

example : uA.netloc ≠ [] ∧ uA.path = 47 :: "a/../b".toStr ∧ ¬ NoDotSegments uA.path ∧ "a/../b".toStr ≠ [] := by
  refine ⟨by decide, rfl, by decide, by decide⟩

/-- the modifiers on `u` (Python: `u.with_query('k=v')`, `u.with_fragment(None)`, `u / 'c'`, `u / 'c.d'`,
    `u.joinpath('c.d', encoded=True)`, `u.joinpath('c', encoded=True)`, `u.parent`, `u.with_name('n')`,
    `u.with_suffix('.x')`, `u.join(URL('z'))`, `u.join(URL('?q'))`, `u.with_user('n')`):
    paths "/a/../b", "/a/../b", "/a/../b/c", "/b/c.d", "/b/c.d", "/a/../b/c", "/a/..", "/a/../n", "/a/../b.x", "/z",
    "/a/../b", "/a/../b" -/
theorem C15_derived_from_encoded_instance (b : Backend) :
    let e : Env := ⟨b, Oracles.empty⟩
    preEncodedUrl e ("http://U:P@H:080/a/../b?x y#".toStr ++ [233]) = .ok uA ∧
    (withQuery e uA (.str "k=v".toStr)).map (·.path) = .ok "/a/../b".toStr ∧
    (withFragment e uA none).path = "/a/../b".toStr ∧
    (makeChild e uA ["c".toStr] false).map (·.path) = .ok "/a/../b/c".toStr ∧
    (makeChild e uA ["c.d".toStr] false).map (·.path) = .ok "/b/c.d".toStr ∧
    (makeChild e uA ["c.d".toStr] true).map (·.path) = .ok "/b/c.d".toStr ∧
    (makeChild e uA ["c".toStr] true).map (·.path) = .ok "/a/../b/c".toStr ∧
    (parent uA).path = "/a/..".toStr ∧
    (withName e uA "n".toStr false false).map (·.path) = .ok "/a/../n".toStr ∧
    (withSuffix e uA ".x".toStr false false).map (·.path) = .ok "/a/../b.x".toStr ∧
    (join e uA (fromParts [] [] "z".toStr [] [])).path = "/z".toStr ∧
    (join e uA (fromParts [] [] [] "q".toStr [])).path = "/a/../b".toStr ∧
    (withUser e uA (some "n".toStr)).map (·.path) = .ok "/a/../b".toStr := by
  cases b <;> decide +kernel

/-- `with_path(p, encoded=True)` on `u` (Python: `u.with_path('/p/./q', encoded=True)`, `…('p/../q', encoded=True)`,
    `…('', encoded=True)`): "/p/./q", "/p/../q", "" — and `joinpath(…, encoded=True)` with a leading '/' raises -/
theorem C15_encoded_entry_points_instance (b : Backend) :
    let e : Env := ⟨b, Oracles.empty⟩
    (withPath e uA "/p/./q".toStr true false false).path = "/p/./q".toStr ∧
    (withPath e uA "p/../q".toStr true false false).path = "/p/../q".toStr ∧
    (withPath e uA [] true false false).path = [] ∧
    -- the same arguments WITHOUT encoded=True are normalised
    (withPath e uA "/p/./q".toStr false false false).path = "/p/q".toStr ∧
    (withPath e uA "p/../q".toStr false false false).path = "/q".toStr ∧
    makeChild e uA ["/c".toStr] true = .error .valueError ∧
    -- '%2E' is NOT a dot for `joinpath(encoded=True)`: nothing is decoded, but the literal '.' in "x.y" triggers
    -- normalisation of the whole path, old ".." included
    (makeChild e uA ["%2E%2E".toStr] true).map (·.path) = .ok "/a/../b/%2E%2E".toStr ∧
    (makeChild e uA ["%2E%2E".toStr, "x.y".toStr] true).map (·.path) = .ok "/b/%2E%2E/x.y".toStr := by
  cases b <;> decide +kernel

end witnesses

end Yarl
