/-
  C10ReachE.lean — property C10 (equality, hash, ordering) over `ReachE`, the closure of ALL entry points,
  `encoded=True` included (ReachE.lean).

  NOTHING TO LIFT.  Every C10 law is already a theorem about ARBITRARY records `a b c : Url` with no hypothesis at all:
    `C10_eq_components`, `C10_equivalence`, `C10_hash_coherent`, `C10_trichotomy`, `C10_le_iff`, `C10_ge_gt`,
    `C10_lt_trans`, `C10_le_total`, `C10_le_trans`, `C10_le_antisymm`, `C10_lt_respects_eq`, `C10_route_independent`,
    `C10_lt_irrefl`, `C10_lt_asymm`, `C10_lt_iff_le_not_eq`, `C10_le_iff_not_gt` (C10.lean) and the cache-machine
    theorems of C10Headline.lean.  Equality, hash and order are functions of `eqKey` = the five stored strings, so they
    hold of URLs made with `encoded=True` exactly as of all others; the one-line corollaries over `ReachE` are not stated.

  The only thing this file records is what C10's "same URL" MEANS across the two modes (it is equality of STORED text, so
  the same input text gives DIFFERENT URLs under the two modes unless it is already canonical), as one witness.
-/
import YarlProofs.ReachE
import YarlProofs.C10
set_option linter.unusedVariables false
namespace Yarl

/-- equality is on the stored text: `URL('http://h/a b') != URL('http://h/a b', encoded=True)` ("/a%20b" vs "/a b" stored),
    while `URL('http://h/a%20b') == URL('http://h/a%20b', encoded=True)` — although only the first carries a pre-filled
    cache.  All four URLs are in `ReachE`; exactly one of `<`, `==`, `>` holds of the first two (`C10_trichotomy`, which
    needs no hypothesis): the `encoded=True` one is the smaller (' ' < '%'). -/
theorem C10_reachE_equality_is_on_stored_text :
    let e : Env := ⟨.py, Oracles.empty⟩
    ∃ a b c d, encodeUrl e "http://h/a b".toStr = .ok a ∧ preEncodedUrl e "http://h/a b".toStr = .ok b ∧
      encodeUrl e "http://h/a%20b".toStr = .ok c ∧ preEncodedUrl e "http://h/a%20b".toStr = .ok d ∧
      ReachE e a ∧ ReachE e b ∧ ReachE e c ∧ ReachE e d ∧
      a.beq b = false ∧ b.lt a = true ∧ a.lt b = false ∧
      c.beq d = true ∧ c ≠ d ∧ a.beq c = true := by
  intro e
  have ha : encodeUrl e "http://h/a b".toStr = .ok
      { scheme := "http".toStr, netloc := "h".toStr, path := "/a%20b".toStr, query := [], fragment := [],
        pre := some { rawHost := some "h".toStr, explicitPort := none, rawUser := none, rawPassword := none } } := by
    decide +kernel
  have hb : preEncodedUrl e "http://h/a b".toStr = .ok (fromParts "http".toStr "h".toStr "/a b".toStr [] []) := by
    decide +kernel
  have hc : encodeUrl e "http://h/a%20b".toStr = .ok
      { scheme := "http".toStr, netloc := "h".toStr, path := "/a%20b".toStr, query := [], fragment := [],
        pre := some { rawHost := some "h".toStr, explicitPort := none, rawUser := none, rawPassword := none } } := by
    decide +kernel
  have hd : preEncodedUrl e "http://h/a%20b".toStr = .ok (fromParts "http".toStr "h".toStr "/a%20b".toStr [] []) := by
    decide +kernel
  exact ⟨_, _, _, _, ha, hb, hc, hd, ReachE.ctor _ _ (by decide) ha, ReachE.ctorEnc _ _ (by decide) hb,
    ReachE.ctor _ _ (by decide) hc, ReachE.ctorEnc _ _ (by decide) hd,
    by decide +kernel, by decide +kernel, by decide +kernel, by decide +kernel, by decide, by decide +kernel⟩

end Yarl
