import YarlProofs.C01HeadlineMore
import YarlProofs.C16Mapped
/-!
  C01More.lean — property C01, the GAPS items 6, 7, 8 of C01Headline.lean.

  C01 | Canonical output is well-formed ASCII in every component.

  ITEM 7 (the oracle hypotheses `HostOracleAscii` / `HostOracleNoAt`).  The model screens every IDNA answer with
  `notRegName` on the VALIDATING routes (`with_host`, `build(host=)`), so there the hypotheses are DISCHARGED:
  `C01_encode_host_validated_no_oracle`, `C01_with_host_no_oracle`, `C01_build_host_no_oracle`,
  `C01_applyOp_no_oracle` (all 19 operations).  (Since fix 3fbf5b4 an IDNA answer holding a ':' is not screened as a
  reg-name but re-entered into `_encode_host` (`encodeHostA`); accepted under validation it spells an IP literal with a
  screened zone — `colon_answer_chars`, on top of `parseIPv6_chars` — so the discharge goes through unchanged; only the
  shape clause of `C01_encode_host_validated_no_oracle` gained a disjunct.)  The two routes that call `_encode_host(…, validate_host=False)` — the
  constructor and `build(authority=)` — still need a hypothesis, but only a LOCAL one, about the single IDNA answer for the
  host text of that very input (`IdnaLocalAscii`, `IdnaLocalNoAt`; vacuous for an ASCII host):
  `C01_encodeUrl_local_oracle`, `C01_build_local_oracle`; closure forms `C01_reachable_netloc_ascii_local`,
  `C01_reachable_userinfo_ok_local`, `C01_str_ascii_reachable_local`.  Hostile-oracle counterexamples for exactly these
  two routes: `C01_constructor_needs_oracle_ascii`, `C01_build_authority_needs_oracle_ascii`,
  `C01_constructor_needs_oracle_no_at` (and the same tables are harmless on the validating routes:
  `C01_hostile_oracle_screened_on_validating_routes`).
  Technique: `tame cg o` is the oracle table `o` with every IDNA ENCODING answer outside the class `cg` replaced by
  "UnicodeError".  A run against `o` that meets the local conditions is, step for step, a run against `tame cg o`
  (`reachS_tame`), and `tame cg o` satisfies the global oracle hypothesis — so every `ReachS` theorem of C01Str.lean applies.

  ITEM 6 (the '%' clause and the host).  ONE whole-string theorem, `C01_str_outside_host`: for a reachable URL
  `str u = pre ++ hostText ++ suf` with `hostText` the `host[:port]` text of the rendered authority, and OUTSIDE it —
  in `pre` and `suf` — every '%' starts an escape of two upper-case hex digits, every character is ASCII, none is a raw
  space / control / quote / `<>\^`{|}`.  No `ZoneAscii` side condition (the zone id lives inside `hostText`), no guard
  "no '%' in the host".  Positional form: `C01_percent_outside_host_positions`.

  ITEM 8 (ReachS versus Reach).  `BuildNetPy` can NOT be discharged: `C01_reach_build_nonpython_user_counterexample`
  (a model artefact of the C backend: a code point above 0x10FFFF passes through the quoter unchanged).  `J` cannot be
  discharged either (C01_netloc_ascii_fails_for_foreign_join_ref).  What can: `Z` (for everything outside the host) and
  the oracle hypotheses (above); `Sc` is a condition on the RESULT scheme.  `C01_api_outside_host` is the resulting
  statement for the API closure `ReachS ⊤ ⊤ ⊥` (constructor, build, the 18 real operations, join).
-/
set_option linter.unusedVariables false
namespace Yarl
open StrAscii OutLangLemmas QsLemmas WfLemmas EntryLemmas NetlocLemmas
namespace R11

/-! ## the tamed oracle table -/

/-- a class of characters IDNA answers may consist of: contains ASCII other than '@', closed under "un-lowering" -/
structure GoodC (cg : Nat → Bool) : Prop where
  lower : ∀ c, cg (lowerC c) = true → cg c = true
  base : ∀ c, c < 128 → c ≠ 64 → cg c = true

def cgAscii (c : Nat) : Bool := decide (c < 128)
def cgNoAt (c : Nat) : Bool := decide (c ≠ 64)
def cgBoth (c : Nat) : Bool := decide (c < 128) && decide (c ≠ 64)

theorem lowerC_cases (c : Nat) : lowerC c = c ∨ (c < 128 ∧ lowerC c ≠ 64 ∧ c ≠ 64) := by
  unfold lowerC; split <;> omega

theorem goodC_ascii : GoodC cgAscii :=
  ⟨fun c h => by
    simp only [cgAscii, decide_eq_true_eq] at h ⊢
    rcases lowerC_cases c with hl | hl
    · rw [hl] at h; exact h
    · exact hl.1, fun c h _ => by simpa [cgAscii] using h⟩
theorem goodC_noAt : GoodC cgNoAt :=
  ⟨fun c h => by
    simp only [cgNoAt, decide_eq_true_eq] at h ⊢
    rcases lowerC_cases c with hl | hl
    · rw [hl] at h; exact h
    · exact hl.2.2, fun c _ h => by simpa [cgNoAt] using h⟩
theorem goodC_both : GoodC cgBoth :=
  ⟨fun c h => by
    simp only [cgBoth, Bool.and_eq_true, decide_eq_true_eq] at h ⊢
    rcases lowerC_cases c with hl | hl
    · rw [hl] at h; exact h
    · exact ⟨hl.1, hl.2.2⟩, fun c h1 h2 => by simp [cgBoth, h1, h2]⟩

def goodB (cg : Nat → Bool) (r : Str) : Bool := r.all cg
theorem goodB_iff {cg : Nat → Bool} {r : Str} : goodB cg r = true ↔ ∀ c ∈ r, cg c = true := by
  simp [goodB, List.all_eq_true]

/-- the oracle table with every IDNA ENCODING answer that has a character outside `cg` replaced by "UnicodeError" -/
def tame (cg : Nat → Bool) (o : Oracles) : Oracles :=
  { o with idnaEnc := fun x => (o.idnaEnc x).map (fun a => a.filter (goodB cg)),
           idnaEncStd := fun x => (o.idnaEncStd x).map (fun a => a.filter (goodB cg)) }
def tameE (cg : Nat → Bool) (e : Env) : Env := ⟨e.b, tame cg e.o⟩

theorem tame_answers (cg : Nat → Bool) (o : Oracles) (h r : Str)
    (hr : (tame cg o).idnaEnc h = some (some r) ∨ (tame cg o).idnaEncStd h = some (some r)) : goodB cg r = true := by
  have key : ∀ (x : Option (Option Str)), x.map (fun a => a.filter (goodB cg)) = some (some r) → goodB cg r = true := by
    intro x hx
    cases x with
    | none => cases hx
    | some a =>
      cases a with
      | none => simp at hx
      | some y =>
        simp only [Option.map_some, Option.some.injEq] at hx
        by_cases hy : goodB cg y = true
        · simp [Option.filter, hy] at hx; exact hx ▸ hy
        · simp [Option.filter, hy] at hx
  rcases hr with hr | hr
  · exact key _ hr
  · exact key _ hr

theorem tame_ascii_ok (o : Oracles) : HostOracleAscii (tame cgAscii o) :=
  fun h r hr c hc => by simpa [cgAscii] using goodB_iff.mp (tame_answers _ o h r hr) c hc
theorem tame_noAt_ok (o : Oracles) : HostOracleNoAt (tame cgNoAt o) :=
  fun h r hr hc => by simpa [cgNoAt] using goodB_iff.mp (tame_answers _ o h r hr) 64 hc
theorem tame_both_ok (o : Oracles) : HostOracleAscii (tame cgBoth o) ∧ HostOracleNoAt (tame cgBoth o) :=
  ⟨fun h r hr c hc => by
      have := goodB_iff.mp (tame_answers _ o h r hr) c hc
      simp only [cgBoth, Bool.and_eq_true, decide_eq_true_eq] at this; exact this.1,
   fun h r hr hc => by
      have := goodB_iff.mp (tame_answers _ o h r hr) 64 hc
      simp [cgBoth] at this⟩

theorem notRegName_good {y : Str} (h : notRegName y = false) : ∀ c ∈ y, c < 128 ∧ c ≠ 64 :=
  fun c hc => regName_char (HostLemmas.notRegName_spec _ h c hc)

/-! ### the characters of an IP literal (needed since fix 3fbf5b4: an IDNA answer holding a ':' is re-entered) -/

theorem parseHextet_chars {p : Str} {v : Nat} (h : parseHextet p = some v) : ∀ c ∈ p, isHexC c = true := by
  unfold parseHextet at h
  split at h; · cases h
  rename_i hall
  simpa using hall

theorem mapM_parseHextet_chars {l : List Str} {vs : List Nat} (h : l.mapM parseHextet = some vs) :
    ∀ p ∈ l, ∀ c ∈ p, isHexC c = true := by
  induction l generalizing vs with
  | nil => simp
  | cons p ps ih =>
    rw [List.mapM_cons] at h
    cases hp : parseHextet p with
    | none => simp [hp] at h
    | some v =>
      cases hps : ps.mapM parseHextet with
      | none => simp [hp, hps] at h
      | some vs' =>
        intro q hq
        rcases List.mem_cons.1 hq with rfl | hq
        · exact parseHextet_chars hp
        · exact ih hps q hq

theorem skip_chars {parts : List Str} {hi lo : Nat} {h8 : List Nat}
    (h : (if 8 < hi + lo + 1 then none
      else match (parts.take hi).mapM parseHextet, ((parts.drop (parts.length - lo))).mapM parseHextet with
        | some h, some l => some (h ++ List.replicate (8 - (hi + lo)) 0 ++ l)
        | _, _ => none) = some h8) :
    (∀ p ∈ parts.take hi, ∀ c ∈ p, isHexC c = true) ∧
    (∀ p ∈ parts.drop (parts.length - lo), ∀ c ∈ p, isHexC c = true) := by
  split at h; · cases h
  split at h
  · rename_i hh ll h1 h2
    exact ⟨mapM_parseHextet_chars h1, mapM_parseHextet_chars h2⟩
  · cases h

/-- every part of an accepted IPv6 part list is empty or a run of hex digits -/
theorem v6core_chars {parts : List Str} {h8 : List Nat} (h : HostLemmas.v6core parts = some h8) :
    ∀ p ∈ parts, ∀ c ∈ p, isHexC c = true := by
  unfold HostLemmas.v6core at h
  split at h; · cases h
  split at h
  · cases h
  · rename_i skip hs
    obtain ⟨k1, k2, k3⟩ := HostLemmas.findSkip_some hs
    extract_lets hi0 lo0 fe le hi lo at h
    split at h; · cases h
    rename_i c1
    split at h; · cases h
    rename_i c2
    obtain ⟨a1, a2⟩ := skip_chars h
    intro p hp
    obtain ⟨i, hi', rfl⟩ := List.mem_iff_getElem.1 hp
    by_cases b1 : i < hi
    · exact a1 _ (List.mem_take_iff_getElem.2 ⟨i, by omega, rfl⟩)
    · by_cases b2 : parts.length - lo ≤ i
      · refine a2 _ (List.mem_drop_iff_getElem.2 ⟨i - (parts.length - lo), by omega, ?_⟩)
        congr 1; omega
      · -- the uncovered parts are empty
        have hempty : parts[i] = [] := by
          have e1 : parts[skip] = [] := by
            have : parts.getD skip [1] = parts[skip] := by simp [List.getD, List.getElem?_eq_getElem (show skip < parts.length by omega)]
            rw [this] at k3; simpa using k3
          have e2 : fe = true → parts[0] = [] := by
            intro hfe
            have : parts.headD [1] = parts[0] := by
              cases parts with
              | nil => simp at hi'
              | cons x xs => rfl
            simp only [fe, this] at hfe; simpa using hfe
          have e3 : le = true → parts[parts.length - 1] = [] := by
            intro hle
            have : parts.getLastD [1] = parts[parts.length - 1] := by
              rw [List.getLastD_eq_getLast?, List.getLast?_eq_getElem?]
              simp [List.getElem?_eq_getElem (show parts.length - 1 < parts.length by omega)]
            simp only [le, this] at hle; simpa using hle
          have hi_eq : hi = if fe = true then skip - 1 else skip := rfl
          have lo_eq : lo = if le = true then parts.length - skip - 1 - 1 else parts.length - skip - 1 := rfl
          by_cases hfe : fe = true <;> by_cases hle : le = true
          · simp only [hfe, hle, if_true, true_and, ne_eq, Decidable.not_not] at hi_eq lo_eq c1 c2
            have : i = 0 ∨ i = skip ∨ i = parts.length - 1 := by omega
            rcases this with rfl | rfl | rfl
            · exact e2 hfe
            · exact e1
            · exact e3 hle
          · simp only [hfe, hle, if_true, Bool.false_eq_true, if_false, true_and, ne_eq, Decidable.not_not] at hi_eq lo_eq c1 c2
            have : i = 0 ∨ i = skip := by omega
            rcases this with rfl | rfl
            · exact e2 hfe
            · exact e1
          · simp only [hfe, hle, if_true, Bool.false_eq_true, if_false, true_and, ne_eq, Decidable.not_not] at hi_eq lo_eq c1 c2
            have : i = skip ∨ i = parts.length - 1 := by omega
            rcases this with rfl | rfl
            · exact e1
            · exact e3 hle
          · simp only [hfe, hle, Bool.false_eq_true, if_false] at hi_eq lo_eq
            have : i = skip := by omega
            subst this
            exact e1
        rw [hempty]; simp
  · split at h; · cases h
    split at h; · cases h
    split at h; · cases h
    exact mapM_parseHextet_chars h

/-- the characters of a text `ipaddress.IPv6Address` accepts: ':', '.', hex digits -/
theorem parseIPv6_chars {s : Str} {h8 : List Nat} (h : parseIPv6 s = some h8) :
    ∀ c ∈ s, c = 58 ∨ c = 46 ∨ isHexC c = true := by
  rw [HostLemmas.parseIPv6_eq] at h
  split at h; · cases h
  split at h; · cases h
  split at h; · cases h
  split at h
  · cases h
  · rename_i parts hex
    have hparts := v6core_chars h
    have hp0 : ∀ p ∈ splitOn 58 s, ∀ c ∈ p, c = 46 ∨ isHexC c = true := by
      unfold HostLemmas.v6expand at hex
      split at hex
      · rename_i l hl
        split at hex
        · split at hex
          · rename_i a b c d h4
            cases hex
            intro p hp
            have hne : splitOn 58 s ≠ [] := by intro h0; rw [h0] at hl; cases hl
            have hlast : (splitOn 58 s).getLast hne = l := by
              rw [List.getLast?_eq_some_getLast hne] at hl; exact Option.some.inj hl
            rw [← List.dropLast_concat_getLast hne, hlast] at hp
            rcases List.mem_append.1 hp with hp | hp
            · exact fun c hc => Or.inr (hparts p (List.mem_append_left _ hp) c hc)
            · simp only [List.mem_cons, List.not_mem_nil, or_false] at hp
              subst hp
              intro c hc
              rcases HostLemmas.parseIPv4_chars h4 c hc with h | h
              · exact Or.inl h
              · exact Or.inr (by simp [isHexC, h])
          · cases hex
        · cases hex
          exact fun p hp c hc => Or.inr (hparts p hp c hc)
      · cases hex
    intro c hc
    rw [← HostLemmas.joinC_splitOn 58 s] at hc
    rcases HostLemmas.mem_joinC hc with h | ⟨p, hp, hcp⟩
    · exact Or.inl h
    · exact Or.inr (hp0 p hp c hcp)

theorem parseIP_chars {s : Str} {ip : IP} (h : parseIP s = some ip) : ∀ c ∈ s, c < 128 ∧ c ≠ 64 := by
  intro c hc
  unfold parseIP at h
  cases h4 : parseIPv4 s with
  | some o4 =>
    rcases HostLemmas.parseIPv4_chars h4 c hc with h | h
    · omega
    · simp [isDigitC] at h; omega
  | none =>
    rw [h4] at h
    cases h6 : parseIPv6 s with
    | none => simp [h6] at h
    | some h8 =>
      rcases parseIPv6_chars h6 c hc with h | h | h
      · omega
      · omega
      · simp [isHexC, isDigitC] at h; omega

/-- a text with a ':' that the VALIDATED re-entry (fix 3fbf5b4) accepts spells an IP literal with a screened zone:
    the text itself and the result are ASCII without '@' -/
theorem colon_answer_chars {o : Oracles} {a r : Str} (hc : mem 58 a = true) (h : encodeHostA o a true = .ok r) :
    HostLemmas.ipRes a = some r ∧ HostLemmas.zoneBad a true = false ∧
    (∀ c ∈ a, c < 128 ∧ c ≠ 64) ∧ (∀ c ∈ r, c < 128 ∧ c ≠ 64) := by
  obtain ⟨hip, hz⟩ := HostLemmas.encodeHostA_colon_validated hc h
  have hzone : (partition 37 a).2.1 = true → ∀ c ∈ (partition 37 a).2.2, c < 128 ∧ c ≠ 64 := by
    intro hsep c hc
    have := HostLemmas.zone_chars (HostLemmas.zoneBad_true_false hz hsep) c hc
    exact ⟨this.1, this.2.1⟩
  refine ⟨hip, hz, ?_, ipRes_chars_class (C := fun c => c < 128 ∧ c ≠ 64) (fun c h1 h2 => ⟨h1, h2⟩) hip hzone⟩
  have hraw : ∀ c ∈ (partition 37 a).1, c < 128 ∧ c ≠ 64 := by
    unfold HostLemmas.ipRes at hip
    cases hp : parseIP (partition 37 a).1 with
    | none => rw [hp] at hip; cases hip
    | some ip => exact parseIP_chars hp
  intro c hc
  rw [partition_glue 37 a] at hc
  rcases List.mem_append.1 hc with hc | hc
  · exact hraw c hc
  · split at hc
    · rename_i hsep
      rcases List.mem_cons.1 hc with rfl | hc
      · omega
      · exact hzone hsep c hc
    · cases hc

/-- the reg-name branch of a VALIDATED `_encode_host` returns reg-name text — or (since fix 3fbf5b4) the IP literal
    that the IDNA answer of a non-ASCII host spells -/
theorem regPath_validated {o : Oracles} {h r : Str} (he : HostLemmas.regPath o h true = .ok r) :
    (notRegName r = false ∧ (isAscii h = false → idnaEncode o h = .ok r)) ∨
    (isAscii h = false ∧ ∃ a, idnaEncode o h = .ok a ∧ mem 58 a = true ∧
      HostLemmas.ipRes a = some r ∧ HostLemmas.zoneBad a true = false) := by
  cases ha : isAscii h with
  | true =>
    left
    simp only [HostLemmas.regPath, ha, ↓reduceIte, Bool.true_and] at he
    split at he
    · cases he
    · rename_i hn
      cases he
      exact ⟨by simpa using hn, fun hna => by cases hna⟩
  | false =>
    obtain ⟨a, hi, ⟨_, rfl, hn⟩ | ⟨h58, hr, hz⟩⟩ := HostLemmas.regPath_idn_validated ha he
    · exact Or.inl ⟨hn, fun _ => hi⟩
    · exact Or.inr ⟨rfl, a, hi, h58, hr, hz⟩

/-- … in either case ASCII text without '@' -/
theorem regPath_validated_chars {o : Oracles} {h r : Str} (he : HostLemmas.regPath o h true = .ok r) :
    ∀ c ∈ r, c < 128 ∧ c ≠ 64 := by
  rcases regPath_validated he with ⟨hn, _⟩ | ⟨_, a, _, _, hip, hz⟩
  · exact notRegName_good hn
  · refine ipRes_chars_class (C := fun c => c < 128 ∧ c ≠ 64) (fun c h1 h2 => ⟨h1, h2⟩) hip ?_
    intro hsep c hc
    have := HostLemmas.zone_chars (HostLemmas.zoneBad_true_false hz hsep) c hc
    exact ⟨this.1, this.2.1⟩

/-- oracle table without IDNA encoders -/
def mute (o : Oracles) : Oracles := { o with idnaEnc := fun _ => none, idnaEncStd := fun _ => none }

theorem idnaEncode_mute (o : Oracles) (x y : Str) : idnaEncode (mute o) x ≠ .ok y := by
  intro h
  unfold idnaEncode at h
  obtain ⟨a1, h1, _⟩ := bind_ok h
  cases h1

/-- ITEM 7, host level: a VALIDATED `_encode_host` (`with_host`, `build(host=)`) returns ASCII text without '@'
    whatever the oracles answer -/
theorem encodeHost_validated_chars {o : Oracles} {h r : Str} (he : encodeHost o h true = .ok r) :
    ∀ c ∈ r, c < 128 ∧ c ≠ 64 := by
  have he0 := he
  rw [HostLemmas.encodeHost_eq] at he
  cases hl : HostLemmas.looksIP o h with
  | error err => rw [hl] at he; cases he
  | ok b =>
    rw [hl] at he
    simp only [bind, Except.bind] at he
    have hreg : HostLemmas.regPath o h true = .ok r → ∀ c ∈ r, c < 128 ∧ c ≠ 64 :=
      fun h => regPath_validated_chars h
    cases b with
    | false => exact hreg (by simpa using he)
    | true =>
      simp only [↓reduceIte] at he
      cases hr : HostLemmas.ipRes h with
      | none => rw [hr] at he; exact hreg he
      | some r' =>
        rw [hr] at he
        simp only at he
        cases hz : HostLemmas.zoneBad h true with
        | true => rw [hz] at he; cases he
        | false =>
          rw [hz] at he; cases he
          have hl' : HostLemmas.looksIP (mute o) h = .ok true := hl
          have := HostLemmas.encodeHost_ip hl' hr hz
          exact encodeHost_chars' (C := fun c => c < 128 ∧ c ≠ 64) (fun c h1 h2 => ⟨h1, h2⟩)
            (fun _ y hy => absurd hy (idnaEncode_mute o h y)) (Or.inl rfl) this



/-- `y` succeeds with the same value whenever `x` succeeds -/
def Le {α} (x y : R α) : Prop := ∀ v, x = .ok v → y = .ok v

theorem Le.refl {α} (x : R α) : Le x x := fun _ h => h
theorem Le.bind {α β} {x y : R α} {f g : α → R β} (hx : Le x y) (hf : ∀ a, x = .ok a → Le (f a) (g a)) :
    Le (x >>= f) (y >>= g) := by
  intro v h
  obtain ⟨a, ha, h⟩ := bind_ok h
  rw [hx a ha]
  exact hf a ha v h
theorem Le.ite {α} (c : Prop) [Decidable c] {a a' b b' : R α} (h1 : c → Le a b) (h2 : ¬ c → Le a' b') :
    Le (if c then a else a') (if c then b else b') := by
  by_cases hc : c
  · rw [if_pos hc, if_pos hc]; exact h1 hc
  · rw [if_neg hc, if_neg hc]; exact h2 hc


/-- `authSplit` / `hostOr` of the constructor hand `_encode_host` exactly the host text `split_netloc` reads -/
theorem authSplit_host (o : Oracles) (n : Str) (np : NetlocParts) (h : EagerLemmas.authSplit o n = .ok np) :
    np.host = orNone (hostPort (hostinfo n)).1 ∨ (np.host = some n ∧ (hostPort (hostinfo n)).1 = n) := by
  unfold EagerLemmas.authSplit at h
  split at h
  · exact Or.inl (splitNetloc_shape o n np h).2.2
  · rename_i hc
    cases h
    simp only [Bool.or_eq_true, not_or, Bool.not_eq_true] at hc
    obtain ⟨⟨h58, h64⟩, h91⟩ := hc
    refine Or.inr ⟨rfl, ?_⟩
    rw [hostinfo_of_noAt (mem_false_iff.mp h64)]
    unfold hostPort
    rw [h91]
    simp [HostLemmas.partition_not_mem 58 n (mem_false_iff.mp h58)]

theorem hostOr_host {sc : Str} {n : Str} {np : NetlocParts} {h0 : Str}
    (hh : np.host = orNone (hostPort (hostinfo n)).1 ∨ (np.host = some n ∧ (hostPort (hostinfo n)).1 = n))
    (h : EagerLemmas.hostOr sc np.host = .ok h0) : h0 = (hostPort (hostinfo n)).1 := by
  unfold EagerLemmas.hostOr at h
  rcases hh with hh | ⟨hh, he⟩
  · rw [hh] at h
    by_cases hemp : (hostPort (hostinfo n)).1.isEmpty = true
    · have : orNone (hostPort (hostinfo n)).1 = none := by simp [orNone, hemp]
      rw [this] at h
      simp only at h
      by_cases hc : Gen.schemeRequiresHost.contains sc = true
      · rw [if_pos hc] at h; cases h
      · rw [if_neg hc] at h; cases h; exact (isEmpty_eq_nil hemp).symm
    · have : orNone (hostPort (hostinfo n)).1 = some (hostPort (hostinfo n)).1 := by simp [orNone, hemp]
      rw [this] at h
      cases h; rfl
  · rw [hh] at h; cases h; exact he.symm

/-- side condition on the `host[:port]` text `hi` of an authority given to the constructor / `build(authority=)`: IF
    the host name in it is not ASCII (so it is sent to IDNA) and the oracle answers, every character of the answer is in
    the class `cg` -/
def IdnaLocalOK (cg : Nat → Bool) (o : Oracles) (hi : Str) : Prop :=
  isAscii (hostPort hi).1 = false → ∀ y, idnaEncode o (hostPort hi).1 = .ok y → ∀ c ∈ y, cg c = true

/-- `URL.build` with the authority computation (`StrTotal.buildNetloc`) as a parameter -/
def buildCore (e : Env) (a : BuildArgs) (nl : BuildArgs → R Str) : R Url := do
  let portTruthy := match a.portKind, a.port with
    | 0, none => false
    | _, _ => true
  if !a.authority.isEmpty && (a.user.any (!·.isEmpty) || a.password.any (!·.isEmpty) || !a.host.isEmpty || portTruthy) then
    .error .valueError
  else if a.portKind ≠ 0 then .error .typeError
  else if (match a.port with | some p => !(0 ≤ p ∧ p ≤ 65535) | none => false) then .error .valueError
  else if portTruthy && a.host.isEmpty then .error .valueError
  else if qargTruthy a.query && !a.queryString.isEmpty then .error .valueError
  else do
    let port : Option Nat := a.port.map Int.toNat
    let queryString ← (if qargTruthy a.query then do
        pure ((← getStrQuery e.b a.query).getD [])
      else pure a.queryString : R Str)
    if a.encoded then pure (buildPreEncoded e a port queryString)
    else do
      let a := { a with scheme := ← lowerAny e a.scheme }
      let netloc ← nl a
      let path0 := if a.path.isEmpty then a.path else q e Gen.PATH_QUOTER a.path
      let path ← (if !path0.isEmpty && !netloc.isEmpty then
          match path0 with
          | 47 :: _ => pure (if mem 46 path0 then normalizePath path0 else path0)
          | _ => .error .valueError
        else pure path0 : R Str)
      let query := if !qargTruthy a.query && !queryString.isEmpty then q e Gen.QUERY_QUOTER queryString else queryString
      let fragment := if a.fragment.isEmpty then a.fragment else q e Gen.FRAGMENT_QUOTER a.fragment
      pure (fromParts a.scheme netloc path query fragment)

theorem build_eq_core (e : Env) (a : BuildArgs) : build e a = buildCore e a (StrTotal.buildNetloc e) := rfl

theorem buildCore_mono (e : Env) (a : BuildArgs) (nl nl' : BuildArgs → R Str)
    (h : ∀ sc, Le (nl { a with scheme := sc }) (nl' { a with scheme := sc })) :
    Le (buildCore e a nl) (buildCore e a nl') := by
  unfold buildCore
  refine Le.ite _ (fun _ => Le.refl _) (fun _ => ?_)
  refine Le.ite _ (fun _ => Le.refl _) (fun _ => ?_)
  refine Le.ite _ (fun _ => Le.refl _) (fun _ => ?_)
  refine Le.ite _ (fun _ => Le.refl _) (fun _ => ?_)
  refine Le.ite _ (fun _ => Le.refl _) (fun _ => ?_)
  refine Le.bind (Le.refl _) (fun qs _ => ?_)
  refine Le.ite _ (fun _ => Le.refl _) (fun _ => ?_)
  refine Le.bind (Le.refl _) (fun sc _ => ?_)
  exact Le.bind (h sc) (fun n _ => Le.refl _)

theorem go_tame (cg : Nat → Bool) (e : Env) (enc : Bool) (l : List Str) :
    ∀ (last : Bool) (parsed : List Str) (nn : Bool),
    makeChild.go (tameE cg e) enc l last parsed nn = makeChild.go e enc l last parsed nn := by
  induction l with
  | nil => intro _ _ _; rfl
  | cons p rest ih =>
    intro last parsed nn
    unfold makeChild.go
    split
    · rfl
    · exact ih _ _ _

/-- every operation other than `with_host` never looks at the IDNA encoders -/
theorem applyOp_tame (cg : Nat → Bool) (e : Env) (u : Url) (op : UOp) (h : ∀ s, op ≠ .withHost s) :
    applyOp (tameE cg e) u op = applyOp e u op := by
  cases op with
  | withHost s => exact absurd rfl (h s)
  | child paths =>
    show makeChild (tameE cg e) u paths false = makeChild e u paths false
    unfold makeChild
    rw [go_tame]
  | _ => rfl

section
variable {cg : Nat → Bool} (hg : GoodC cg)
include hg

theorem goodB_lower {r : Str} (h : goodB cg (lower r) = true) : goodB cg r = true := by
  rw [goodB_iff] at h ⊢
  intro c hc
  exact hg.lower c (h (lowerC c) (by simp only [lower, List.mem_map]; exact ⟨c, hc, rfl⟩))
/-- a good IDNA answer survives the taming -/
theorem idnaEncode_tame {o : Oracles} {x y : Str} (h : idnaEncode o x = .ok y) (hy : goodB cg y = true) :
    idnaEncode (tame cg o) x = .ok y := by
  unfold idnaEncode at h ⊢
  obtain ⟨a1, h1, h⟩ := bind_ok h
  cases h1' : o.idnaEnc x with
  | none => rw [h1'] at h1; cases h1
  | some v =>
    rw [h1'] at h1; cases h1
    cases a1 with
    | some r =>
      cases h
      have : (tame cg o).idnaEnc x = some (some y) := by simp [tame, h1', Option.filter, hy]
      rw [this]; rfl
    | none =>
      simp only at h
      obtain ⟨a2, h2, h⟩ := bind_ok h
      cases h2' : o.idnaEncStd x with
      | none => rw [h2'] at h2; cases h2
      | some w =>
        rw [h2'] at h2; cases h2
        cases a2 with
        | none => cases h
        | some r =>
          cases h
          have e1 : (tame cg o).idnaEnc x = some none := by simp [tame, h1', Option.filter]
          have e2 : (tame cg o).idnaEncStd x = some (some r) := by simp [tame, h2', Option.filter, goodB_lower hg hy]
          rw [e1]
          simp only [ask, bind, Except.bind, e2]
          rfl

/-- `_encode_host` run against the tamed table gives the same answer, when the host is validated, or ASCII, or its
    IDNA answer is good -/
theorem encodeHost_tame {o : Oracles} {h r : Str} {v : Bool} (he : encodeHost o h v = .ok r)
    (hc : v = true ∨ isAscii h = true ∨ ∀ y, idnaEncode o h = .ok y → goodB cg y = true) :
    encodeHost (tame cg o) h v = .ok r := by
  rw [HostLemmas.encodeHost_eq] at he ⊢
  have hl' : HostLemmas.looksIP (tame cg o) h = HostLemmas.looksIP o h := rfl
  rw [hl']
  cases hl : HostLemmas.looksIP o h with
  | error err => rw [hl] at he; cases he
  | ok b =>
    rw [hl] at he
    simp only [bind, Except.bind] at he ⊢
    generalize (if b = true then HostLemmas.ipRes h else none) = ip at he ⊢
    cases ip with
    | some r' => exact he
    | none =>
      simp only at he ⊢
      unfold HostLemmas.regPath at he ⊢
      split
      · rename_i ha; rw [if_pos ha] at he; exact he
      · rename_i ha
        rw [if_neg ha] at he
        cases hi : idnaEncode o h with
        | error err => rw [hi] at he; cases he
        | ok y =>
          rw [hi] at he
          simp only [bind, Except.bind] at he
          have hy : goodB cg y = true := by
            rcases hc with hv | hasc | hloc
            · subst hv
              cases h58 : mem 58 y with
              | true =>
                -- fix 3fbf5b4: the answer is re-entered; accepted under validation, it spells an IP literal
                rw [h58] at he
                simp only [if_true] at he
                exact goodB_iff.mpr (fun c hc =>
                  hg.base c ((colon_answer_chars h58 he).2.2.1 c hc).1 ((colon_answer_chars h58 he).2.2.1 c hc).2)
              | false =>
                rw [h58] at he
                simp only [Bool.false_eq_true, if_false] at he
                split at he
                · cases he
                · rename_i hn
                  exact goodB_iff.mpr (fun c hc => hg.base c (notRegName_good (by simpa using hn) c hc).1 (notRegName_good (by simpa using hn) c hc).2)
            · exact absurd hasc ha
            · exact hloc y hi
          rw [idnaEncode_tame hg hi hy]
          -- the re-entry `encodeHostA` never asks the IDNA encoders: it is the same function on the tamed table
          exact he


theorem withHost_tame (e : Env) (u : Url) (s : Str) : Le (withHost e u s) (withHost (tameE cg e) u s) := by
  unfold withHost
  refine Le.ite _ (fun _ => Le.refl _) (fun _ => Le.ite _ (fun _ => Le.refl _) (fun _ => ?_))
  exact Le.bind (fun v h => encodeHost_tame hg h (Or.inl rfl)) (fun a _ => Le.refl _)


theorem authBlock_tame (e : Env) (p : Parts) (hloc : IdnaLocalOK cg e.o (hostinfo p.netloc)) :
    Le (EagerLemmas.authBlock e p) (EagerLemmas.authBlock (tameE cg e) p) := by
  unfold EagerLemmas.authBlock
  refine Le.ite _ (fun _ => Le.refl _) (fun _ => ?_)
  refine Le.bind (Le.refl _) (fun np hnp => ?_)
  refine Le.bind (Le.refl _) (fun h0 hh0 => ?_)
  refine Le.bind ?_ (fun h1 _ => Le.refl _)
  intro v hv
  have := hostOr_host (authSplit_host e.o p.netloc np hnp) hh0
  subst this
  refine encodeHost_tame hg hv ?_
  by_cases ha : isAscii (hostPort (hostinfo p.netloc)).1 = true
  · exact Or.inr (Or.inl ha)
  · exact Or.inr (Or.inr (fun y hy => goodB_iff.mpr (hloc (by simpa using ha) y hy)))

theorem encodeUrl_tame (e : Env) (s : Str)
    (hloc : ∀ p, splitUrl e.o s = .ok p → IdnaLocalOK cg e.o (hostinfo p.netloc)) :
    Le (encodeUrl e s) (encodeUrl (tameE cg e) s) := by
  rw [EagerLemmas.encodeUrl_eq, EagerLemmas.encodeUrl_eq]
  refine Le.bind (Le.refl _) (fun p hp => ?_)
  exact Le.bind (authBlock_tame hg e p (hloc p hp)) (fun a _ => Le.refl _)

theorem buildNetloc_tame (e : Env) (a : BuildArgs) (hloc : IdnaLocalOK cg e.o (hostinfo a.authority)) :
    Le (StrTotal.buildNetloc e a) (StrTotal.buildNetloc (tameE cg e) a) := by
  unfold StrTotal.buildNetloc
  simp only
  refine Le.ite _ (fun _ => ?_) (fun _ => Le.ite _ (fun _ => ?_) (fun _ => Le.refl _))
  · have key : ∀ np, splitNetloc e.o a.authority = .ok np →
        Le (match np.host with | some h => encodeHost e.o h false | none => (pure [] : R Str))
           (match np.host with | some h => encodeHost (tameE cg e).o h false | none => (pure [] : R Str)) := by
      intro np hnp
      cases hh : np.host with
      | none => exact Le.refl _
      | some x =>
        intro v hv
        have hx : x = (hostPort (hostinfo a.authority)).1 := by
          have := (splitNetloc_shape e.o a.authority np hnp).2.2
          rw [hh] at this
          exact WfLemmas.orNone_some this.symm
        subst hx
        refine encodeHost_tame hg hv ?_
        by_cases ha : isAscii (hostPort (hostinfo a.authority)).1 = true
        · exact Or.inr (Or.inl ha)
        · exact Or.inr (Or.inr (fun y hy => goodB_iff.mpr (hloc (by simpa using ha) y hy)))
    refine Le.ite _ (fun _ => Le.bind (Le.refl _) (fun _ _ => ?_)) (fun _ => ?_)
    · exact Le.bind (Le.refl _) (fun np hnp => Le.bind (key np hnp) (fun h1 _ => Le.refl _))
    · exact Le.bind (Le.refl _) (fun np hnp => Le.bind (key np hnp) (fun h1 _ => Le.refl _))
  · exact Le.bind (fun v hv => encodeHost_tame hg hv (Or.inl rfl)) (fun h1 _ => Le.refl _)

theorem build_tame (e : Env) (a : BuildArgs) (hloc : IdnaLocalOK cg e.o (hostinfo a.authority)) :
    Le (build e a) (build (tameE cg e) a) := by
  rw [build_eq_core, build_eq_core]
  have : buildCore (tameE cg e) a (StrTotal.buildNetloc (tameE cg e)) = buildCore e a (StrTotal.buildNetloc (tameE cg e)) := rfl
  rw [this]
  exact buildCore_mono e a _ _ (fun sc => buildNetloc_tame hg e _ hloc)

/-- THE TRANSFER: a history that meets the local IDNA conditions is, step for step, a history against the tamed
    oracle table -/
theorem reachS_tame {Z Sc : Str → Prop} {J : Url → Prop} {e : Env} {u : Url}
    (h : ReachS (fun hi => Z hi ∧ IdnaLocalOK cg e.o hi) Sc J e u) : ReachS Z Sc J (tameE cg e) u := by
  induction h with
  | ctor s u hs hz h =>
    exact ReachS.ctor s u hs (fun p hp => (hz p hp).1) (encodeUrl_tame hg e s (fun p hp => (hz p hp).2) u h)
  | build a u henc hpy hn hz hsc h =>
    exact ReachS.build a u henc hpy hn hz.1 hsc (build_tame hg e a hz.2 u h)
  | op u op v _ ha hside h ih =>
    refine ReachS.op u op v ih ha hside ?_
    by_cases hw : ∃ s, op = .withHost s
    · obtain ⟨s, rfl⟩ := hw
      exact withHost_tame hg e u s v h
    · rw [applyOp_tame cg e u op (fun s hs => hw ⟨s, hs⟩)]; exact h
  | join u r _ _ ihu ihr => exact ReachS.join u r ihu ihr

end


/-! ### whole-string decomposition -/

/-- a property of texts that survives concatenation -/
structure Glue (P : Str → Prop) : Prop where
  nil : P []
  app : ∀ {a b : Str}, P a → P b → P (a ++ b)

theorem glue_wellEscaped : Glue WellEscaped := ⟨trivial, wellEscaped_append⟩
theorem glue_chars (C : Nat → Prop) : Glue (fun s => ∀ c ∈ s, C c) :=
  ⟨fun c hc => (by cases hc), fun ha hb c hc => (List.mem_append.mp hc).elim (ha c) (hb c)⟩

/-- `?query#fragment` -/
def qfTail (query fragment : Str) : Str :=
  (if !query.isEmpty then [63] ++ query else []) ++ (if !fragment.isEmpty then [35] ++ fragment else [])

/-- `unsplit_result` cut at the authority: (text before, the authority if it is rendered else "", text after) -/
def unsplitParts (scheme netloc path query fragment : Str) : Str × Str × Str :=
  if !netloc.isEmpty || (!scheme.isEmpty && Gen.usesAuthority.contains scheme) || path.take 2 = [47, 47] then
    if !path.isEmpty && path.take 1 ≠ [47] then
      if !scheme.isEmpty then (scheme ++ [58, 47, 47], netloc, [47] ++ path ++ qfTail query fragment)
      else (scheme ++ [58] ++ path ++ qfTail query fragment, [], [])
    else
      if !scheme.isEmpty then (scheme ++ [58, 47, 47], netloc, path ++ qfTail query fragment)
      else ([47, 47], netloc, path ++ qfTail query fragment)
  else if !scheme.isEmpty then (scheme ++ [58] ++ path ++ qfTail query fragment, [], [])
  else (path ++ qfTail query fragment, [], [])

theorem unsplit_eq_parts (scheme netloc path query fragment : Str) :
    unsplitResult scheme netloc path query fragment =
      (unsplitParts scheme netloc path query fragment).1 ++ (unsplitParts scheme netloc path query fragment).2.1 ++
        (unsplitParts scheme netloc path query fragment).2.2 := by
  unfold unsplitResult unsplitParts qfTail
  simp only
  repeat' split
  all_goals simp

theorem unsplitParts_mid (scheme netloc path query fragment : Str) :
    (unsplitParts scheme netloc path query fragment).2.1 = netloc ∨
    (unsplitParts scheme netloc path query fragment).2.1 = [] := by
  unfold unsplitParts
  repeat' split
  all_goals simp

theorem unsplitParts_glue {P : Str → Prop} (hP : Glue P) (scheme netloc path query fragment : Str)
    (k58 : P [58]) (k47 : P [47]) (k63 : P [63]) (k35 : P [35])
    (h3 : P path) (h4 : P query) (h5 : P fragment) :
    (P scheme → P (unsplitParts scheme netloc path query fragment).1) ∧
      P (unsplitParts scheme netloc path query fragment).2.2 := by
  have ht : P (qfTail query fragment) := by
    unfold qfTail
    apply hP.app
    · split
      · exact hP.app k63 h4
      · exact hP.nil
    · split
      · exact hP.app k35 h5
      · exact hP.nil
  have k1 : P [58, 47, 47] := hP.app k58 (hP.app k47 k47)
  have k2 : P [47, 47] := hP.app k47 k47
  unfold unsplitParts
  split
  · split
    · split
      · exact ⟨fun h1 => hP.app h1 k1, hP.app (hP.app k47 h3) ht⟩
      · exact ⟨fun h1 => hP.app (hP.app (hP.app h1 k58) h3) ht, hP.nil⟩
    · split
      · exact ⟨fun h1 => hP.app h1 k1, hP.app h3 ht⟩
      · exact ⟨fun _ => k2, hP.app h3 ht⟩
  · split
    · exact ⟨fun h1 => hP.app (hP.app (hP.app h1 k58) h3) ht, hP.nil⟩
    · exact ⟨fun _ => hP.app h3 ht, hP.nil⟩

/-- the `userinfo@` text of an authority (everything up to and including its last '@') -/
def userinfoAt (n : Str) : Str := if mem 64 n then (rpartition 64 n).1 ++ [64] else []

theorem netloc_eq_userinfoAt_hostinfo (n : Str) : n = userinfoAt n ++ hostinfo n := by
  unfold userinfoAt hostinfo userSplit
  by_cases h : 64 ∈ n
  · have hm : mem 64 n = true := mem_iff.mpr h
    simp only [hm, Bool.not_true, Bool.false_eq_true, ↓reduceIte]
    exact (ParseLemmas.rpartition_mem h).1
  · have hm : mem 64 n = false := mem_false_iff.mpr h
    simp [hm]

theorem userinfoAt_glue {P : Str → Prop} (hP : Glue P) (k58 : P [58]) (k64 : P [64]) (n : Str)
    (hU : ∀ x, (userSplit n).1 = some x → P x) (hPw : ∀ x, (userSplit n).2.1 = some x → P x) :
    P (userinfoAt n) := by
  unfold userinfoAt
  by_cases h64 : 64 ∈ n
  · rw [if_pos (mem_iff.mpr h64)]
    obtain ⟨hN, hno⟩ := ParseLemmas.rpartition_mem h64
    generalize (rpartition 64 n).1 = ui at hN ⊢
    generalize (rpartition 64 n).2.2 = hi at hN hno
    have hN' : n = ui ++ 64 :: hi := by rw [hN]; simp
    subst hN'
    rw [userSplit_at ui hi hno] at hU hPw
    simp only at hU hPw
    refine hP.app ?_ k64
    rw [partition_glue 58 ui]
    apply hP.app (hU _ rfl)
    split
    · rename_i hsep
      rw [if_pos hsep] at hPw
      exact hP.app k58 (hPw _ rfl)
    · exact hP.nil
  · rw [if_neg (by simpa using mem_false_iff.mpr h64)]
    exact hP.nil



/-- what `str` renders: `unsplit_result` of the stored parts with the authority text `N`, which is the stored one or —
    when the explicit port is the scheme's default — `make_netloc(raw_user, raw_password, host_subcomponent, None)`;
    in both cases what `split_netloc` reads as user / password of `N` is REQUOTER output, and the host accessor is made
    of characters of its `host[:port]` text -/
theorem str_rendered (e : Env) (u : Url) (r : Str) (ho : HostOracleNoAt e.o) (hu : UserinfoOK e.b u)
    (h : str e u = .ok r) :
    ∃ N path, r = unsplitResult u.scheme N path u.query u.fragment ∧ (path = u.path ∨ path = [47]) ∧
      (∀ x, (userSplit N).1 = some x → UiText e.b x) ∧ (∀ x, (userSplit N).2.1 = some x → UiText e.b x) ∧
      (∀ x, rawHost e u = .ok (some x) → ∀ c ∈ x, c ∈ hostinfo N) ∧
      (N = u.netloc ∨ ∃ p hs, explicitPort e u = .ok (some p) ∧ some p = defaultPort u.scheme ∧
        hostSubcomponent e u = .ok hs ∧ hostinfo N = hs.getD []) := by
  have hI := (inv_uiSpec_iff e ho u).mpr hu
  unfold str at h
  simp only at h
  obtain ⟨ep, hep, h⟩ := bind_ok h
  obtain ⟨netloc, hnl, h⟩ := bind_ok h
  cases h
  have hpath : (if (u.path.isEmpty && !u.netloc.isEmpty && (!u.query.isEmpty || !u.fragment.isEmpty)) = true
      then [47] else u.path) = u.path ∨ (if (u.path.isEmpty && !u.netloc.isEmpty && (!u.query.isEmpty || !u.fragment.isEmpty)) = true
      then [47] else u.path) = [47] := by
    split
    · exact Or.inr rfl
    · exact Or.inl rfl
  have hstored : (∀ x, (userSplit u.netloc).1 = some x → UiText e.b x) ∧
      (∀ x, (userSplit u.netloc).2.1 = some x → UiText e.b x) ∧
      (∀ x, rawHost e u = .ok (some x) → ∀ c ∈ x, c ∈ hostinfo u.netloc) :=
    ⟨hu.user, hu.password, fun x hx => hI.rawHost_ok hx x rfl⟩
  refine ⟨netloc, _, rfl, hpath, ?_⟩
  cases ep with
  | none => cases hnl; exact ⟨hstored.1, hstored.2.1, hstored.2.2, Or.inl rfl⟩
  | some p =>
    simp only at hnl
    split at hnl
    · rename_i hdef
      obtain ⟨hsub, hh1, hnl⟩ := bind_ok hnl
      obtain ⟨ru, hru, hnl⟩ := bind_ok hnl
      obtain ⟨rp, hrp, hnl⟩ := bind_ok hnl
      cases hnl
      cases hsub with
      | none =>
        have hrh : ∀ x, rawHost e u = .ok (some x) → False := by
          intro x hx
          unfold hostSubcomponent at hh1
          rw [hx] at hh1
          cases hh1
        exact ⟨fun x hx => by simp [makeNetloc, userSplit, mem] at hx,
          fun x hx => by simp [makeNetloc, userSplit, mem] at hx, fun x hx => (hrh x hx).elim,
          Or.inr ⟨p, none, hep, hdef, hh1, by simp [makeNetloc, hostinfo, userSplit, mem]⟩⟩
      | some hb =>
        have hhb : ∀ c ∈ hb, c ≠ 64 := hI.hostSub_ok hh1 hb rfl
        have hU : ∀ x, ru = some x → UiText e.b x := hI.rawUser_ok hru
        have hP : ∀ x, rp = some x → UiText e.b x := hI.rawPassword_ok hrp
        have hPN := (uiSpec e ho).mk' (q e Gen.QUOTER) ru rp hb none hU hP hhb
        rw [makeNetloc_qf (q e Gen.QUOTER) id] at hPN ⊢
        obtain ⟨U', hsplit, _, _⟩ := userSplit_makeNetloc ru rp hb none
          (fun x hx => (uiText_chars (hU x hx) 58 ·|>.1 rfl)) (fun hm => hhb 64 hm rfl)
        have hhi : hostinfo (makeNetloc id ru rp (some hb) none false) = hb := by
          unfold hostinfo; rw [hsplit]; rfl
        refine ⟨hPN.1, hPN.2, ?_, Or.inr ⟨p, some hb, hep, hdef, hh1, hhi⟩⟩
        intro x hx c hc
        rw [hhi]
        unfold hostSubcomponent at hh1
        rw [hx] at hh1
        simp only [bind, Except.bind, pure, Except.pure, Option.map_some, Except.ok.injEq, Option.some.injEq] at hh1
        rw [← hh1]
        split
        · simp [hc]
        · exact hc
    · cases hnl; exact ⟨hstored.1, hstored.2.1, hstored.2.2, Or.inl rfl⟩



/-- "not a raw space, control character, double quote, '<>\^`{|}', nor ≥ 127" -/
def NF (c : Nat) : Prop := 32 < c ∧ c < 127 ∧ c ∉ [34, 60, 62, 92, 94, 96, 123, 124, 125]

theorem str_decomp_of_inv (e : Env) (u : Url) (r : Str) (ho : HostOracleNoAt e.o) (hu : UserinfoOK e.b u)
    (h : str e u = .ok r) :
    ∃ N pre suf, r = pre ++ hostinfo N ++ suf ∧ (∃ a, pre ++ hostinfo N = a ++ N) ∧
      (N = [] ∨ N = u.netloc ∨ ∃ p hs, explicitPort e u = .ok (some p) ∧ some p = defaultPort u.scheme ∧
        hostSubcomponent e u = .ok hs ∧ hostinfo N = hs.getD []) ∧
      (N ≠ [] → ∀ x, rawHost e u = .ok (some x) → ∀ c ∈ x, c ∈ hostinfo N) ∧
      ∀ P : Str → Prop, Glue P → P [58] → P [47] → P [63] → P [35] → P [64] →
        P u.path → P u.query → P u.fragment → (∀ x, UiText e.b x → P x) → (P u.scheme → P pre) ∧ P suf := by
  obtain ⟨N, path, hr, hpath, hU, hPw, hrh, hN⟩ := str_rendered e u r ho hu h
  have hmid := unsplitParts_mid u.scheme N path u.query u.fragment
  refine ⟨(unsplitParts u.scheme N path u.query u.fragment).2.1,
    (unsplitParts u.scheme N path u.query u.fragment).1 ++ userinfoAt (unsplitParts u.scheme N path u.query u.fragment).2.1,
    (unsplitParts u.scheme N path u.query u.fragment).2.2, ?_, ?_, ?_, ?_, ?_⟩
  · rw [hr, unsplit_eq_parts]
    conv => lhs; rw [netloc_eq_userinfoAt_hostinfo (unsplitParts u.scheme N path u.query u.fragment).2.1]
    simp
  · refine ⟨(unsplitParts u.scheme N path u.query u.fragment).1, ?_⟩
    conv => rhs; rw [netloc_eq_userinfoAt_hostinfo (unsplitParts u.scheme N path u.query u.fragment).2.1]
    simp
  · rcases hmid with hm | hm
    · rw [hm]; exact Or.inr hN
    · exact Or.inl hm
  · intro hne
    rcases hmid with hm | hm
    · rw [hm]; exact hrh
    · exact absurd hm hne
  · intro P hP k58 k47 k63 k35 k64 h3 h4 h5 hui
    have hp : P path := by
      rcases hpath with rfl | rfl
      · exact h3
      · exact k47
    obtain ⟨ha, hb⟩ := unsplitParts_glue hP u.scheme N path u.query u.fragment k58 k47 k63 k35 hp h4 h5
    refine ⟨fun h1 => hP.app (ha h1) ?_, hb⟩
    rcases hmid with hm | hm
    · rw [hm]; exact userinfoAt_glue hP k58 k64 N (fun x hx => hui x (hU x hx)) (fun x hx => hui x (hPw x hx))
    · rw [hm]; exact hP.nil

theorem wellEscaped_at {s : Str} (h : WellEscaped s) : ∀ i, s[i]? = some 37 →
    ∃ a b, s[i+1]? = some a ∧ s[i+2]? = some b ∧ isUpperHexDigit a = true ∧ isUpperHexDigit b = true := by
  fun_induction WellEscaped s with
  | case1 => intro i hi; simp at hi
  | case2 a b r ih =>
    obtain ⟨ha, hb, hr⟩ := h
    intro i hi
    match i with
    | 0 => exact ⟨a, b, rfl, rfl, ha, hb⟩
    | 1 => simp at hi; subst hi; exact absurd ha (by decide)
    | 2 => simp at hi; subst hi; exact absurd hb (by decide)
    | j + 3 =>
      simp only [List.getElem?_cons_succ] at hi ⊢
      exact ih hr j hi
  | case3 => exact h.elim
  | case4 x => exact h.elim
  | case5 c r h1 h2 h3 ih =>
    intro i hi
    match i with
    | 0 =>
      simp at hi; subst hi
      match r with
      | [] => exact (h2 rfl rfl).elim
      | [x] => exact (h3 x rfl rfl).elim
      | a :: b :: r' => exact (h1 a b r' rfl rfl).elim
    | j + 1 =>
      simp only [List.getElem?_cons_succ] at hi ⊢
      exact ih h j hi

/-- positions: a '%' of `pre ++ H ++ suf` that is not inside `H` starts an upper-case escape -/
theorem pct_outside (pre H suf : Str) (h1 : WellEscaped pre) (h2 : WellEscaped suf) (i : Nat)
    (hi : (pre ++ H ++ suf)[i]? = some 37) (hout : i < pre.length ∨ pre.length + H.length ≤ i) :
    ∃ a b, (pre ++ H ++ suf)[i+1]? = some a ∧ (pre ++ H ++ suf)[i+2]? = some b ∧
      isUpperHexDigit a = true ∧ isUpperHexDigit b = true := by
  rcases hout with hlt | hge
  · rw [List.append_assoc, List.getElem?_append_left hlt] at hi
    obtain ⟨a, b, ha, hb, hh⟩ := wellEscaped_at h1 i hi
    have l1 : i + 1 < pre.length := by
      rcases Nat.lt_or_ge (i+1) pre.length with h | h
      · exact h
      · rw [List.getElem?_eq_none h] at ha; cases ha
    have l2 : i + 2 < pre.length := by
      rcases Nat.lt_or_ge (i+2) pre.length with h | h
      · exact h
      · rw [List.getElem?_eq_none h] at hb; cases hb
    refine ⟨a, b, ?_, ?_, hh⟩
    · rw [List.append_assoc, List.getElem?_append_left l1]; exact ha
    · rw [List.append_assoc, List.getElem?_append_left l2]; exact hb
  · have hlen : (pre ++ H).length ≤ i := by simp; omega
    rw [List.getElem?_append_right hlen] at hi
    obtain ⟨a, b, ha, hb, hh⟩ := wellEscaped_at h2 _ hi
    refine ⟨a, b, ?_, ?_, hh⟩
    · rw [List.getElem?_append_right (by omega)]
      have : i + 1 - (pre ++ H).length = i - (pre ++ H).length + 1 := by omega
      rw [this]; exact ha
    · rw [List.getElem?_append_right (by omega)]
      have : i + 2 - (pre ++ H).length = i - (pre ++ H).length + 2 := by omega
      rw [this]; exact hb

end R11

open R11

/-! ## ITEM 7 — the oracle hypotheses -/

/-- local form of `HostOracleAscii`, on the `host[:port]` text `hi` of ONE authority handed to the constructor or to
    `build(authority=)`: IF its host name is not ASCII (only then is it sent to IDNA) and the oracle answers, the answer
    is ASCII.  Vacuous for an ASCII host name. -/
def IdnaLocalAscii (o : Oracles) (hi : Str) : Prop :=
  isAscii (hostPort hi).1 = false → ∀ y, idnaEncode o (hostPort hi).1 = .ok y → ∀ c ∈ y, c < 128

/-- local form of `HostOracleNoAt`: the IDNA answer for the host name of THIS authority contains no '@' -/
def IdnaLocalNoAt (o : Oracles) (hi : Str) : Prop :=
  isAscii (hostPort hi).1 = false → ∀ y, idnaEncode o (hostPort hi).1 = .ok y → 64 ∉ y

namespace R11
theorem localAscii_iff (o : Oracles) (hi : Str) : IdnaLocalAscii o hi ↔ IdnaLocalOK cgAscii o hi := by
  unfold IdnaLocalAscii IdnaLocalOK cgAscii
  simp only [decide_eq_true_eq]
theorem localNoAt_iff (o : Oracles) (hi : Str) : IdnaLocalNoAt o hi ↔ IdnaLocalOK cgNoAt o hi := by
  unfold IdnaLocalNoAt IdnaLocalOK cgNoAt
  simp only [decide_eq_true_eq]
  constructor
  · intro h ha y hy c hc e64; exact h ha y hy (e64 ▸ hc)
  · intro h ha y hy hm; exact h ha y hy 64 hm rfl
theorem localBoth_iff (o : Oracles) (hi : Str) :
    (IdnaLocalAscii o hi ∧ IdnaLocalNoAt o hi) ↔ IdnaLocalOK cgBoth o hi := by
  unfold IdnaLocalAscii IdnaLocalNoAt IdnaLocalOK cgBoth
  simp only [Bool.and_eq_true, decide_eq_true_eq]
  constructor
  · intro h ha y hy c hc; exact ⟨h.1 ha y hy c hc, fun e64 => h.2 ha y hy (e64 ▸ hc)⟩
  · intro h; exact ⟨fun ha y hy c hc => (h ha y hy c hc).1, fun ha y hy hm => (h ha y hy 64 hm).2 rfl⟩

/-- one step against the tamed table -/
theorem applyOp_le {cg : Nat → Bool} (hg : GoodC cg) (e : Env) (u v : Url) (op : UOp) (h : applyOp e u op = .ok v) :
    applyOp (tameE cg e) u op = .ok v := by
  by_cases hw : ∃ s, op = .withHost s
  · obtain ⟨s, rfl⟩ := hw
    exact withHost_tame hg e u s v h
  · rw [applyOp_tame cg e u op (fun s hs => hw ⟨s, hs⟩)]; exact h
end R11

/-- ITEM 7, host level.  A VALIDATED `_encode_host` (`with_host`, `build(host=)`) returns ASCII text without '@' —
    an IP literal (whose zone id passed the reg-name screen) or reg-name text — WHATEVER the oracles answer: the model
    screens the IDNA answer itself with `NOT_REG_NAME` (fix "validate after IDNA").  No oracle hypothesis.
    Since fix 3fbf5b4 ("canonicalize an IP-literal that only appears after IDNA mapping") there is a third shape: the
    IDNA answer `a` of a non-ASCII host holds a ':' and the result is the IP literal `a` spells (bracketed, compressed;
    zone screened) — `C01_encode_host_validated_third_shape_needed` shows the two-shape statement is now false. -/
theorem C01_encode_host_validated_no_oracle (o : Oracles) (h r : Str) :
    encodeHost o h true = .ok r →
    (∀ c ∈ r, c < 128 ∧ c ≠ 64) ∧
    (HostLemmas.ipRes h = some r ∨ notRegName r = false ∨
      (isAscii h = false ∧ ∃ a, idnaEncode o h = .ok a ∧ mem 58 a = true ∧ HostLemmas.ipRes a = some r)) := by
  intro he
  refine ⟨encodeHost_validated_chars he, ?_⟩
  rcases HostLemmas.encodeHost_casesV he with ⟨hip, _⟩ | ⟨_, hreg⟩
  · exact Or.inl hip
  · rcases regPath_validated hreg with ⟨hn, _⟩ | ⟨hna, a, hi, h58, hip, _⟩
    · exact Or.inr (Or.inl hn)
    · exact Or.inr (Or.inr ⟨hna, a, hi, h58, hip⟩)

/-- the third disjunct above is needed: the host of fix 3fbf5b4, "１:0:0:0:0:0:0:2" (fullwidth digit one), is accepted
    under validation as "[1::2]" — neither the IP literal of the host text itself nor reg-name text -/
theorem C01_encode_host_validated_third_shape_needed :
    encodeHost C16_mapped_oracle C16_mapped_host true = .ok "[1::2]".toStr ∧
    HostLemmas.ipRes C16_mapped_host = none ∧ notRegName "[1::2]".toStr = true ∧
    (∀ c ∈ "[1::2]".toStr, c < 128 ∧ c ≠ 64) := by
  refine ⟨C16_mapped_example.2.2.2.2.1, by decide +kernel, by decide +kernel, by decide⟩

/-- ITEM 7, `with_host`: both authority invariants of C01Str.lean are kept WITHOUT `HostOracleAscii` /
    `HostOracleNoAt` (compare C01_with_host_netloc_ascii) -/
theorem C01_with_host_no_oracle (e : Env) (u v : Url) (s : Str) :
    withHost e u s = .ok v → (AsciiNet u → AsciiNet v) ∧ (UserinfoOK e.b u → UserinfoOK e.b v) := by
  intro h
  have h' := withHost_tame goodC_both e u s v h
  obtain ⟨ho1, ho2⟩ := tame_both_ok e.o
  refine ⟨fun hu => C01_with_host_netloc_ascii (tameE cgBoth e) u v s ho1 hu h', fun hu => ?_⟩
  exact (inv_uiSpec_iff (tameE cgBoth e) ho2 v).mp
    (withHost_inv ((inv_uiSpec_iff (tameE cgBoth e) ho2 u).mpr hu) s h').1

/-- ITEM 7, ALL 19 operations: one step keeps both invariants without any oracle hypothesis (compare
    C01_applyOp_netloc_ascii); a `UOp.joinRef` reference must satisfy them (model artefact) -/
theorem C01_applyOp_no_oracle (e : Env) (u v : Url) (op : UOp) (ha : op.ArgsPy e.b) :
    applyOp e u op = .ok v →
    (AsciiNet u → (∀ ref, op = .joinRef ref → AsciiNet ref) → AsciiNet v) ∧
    (UserinfoOK e.b u → (∀ ref, op = .joinRef ref → UserinfoOK e.b ref) → UserinfoOK e.b v) := by
  intro h
  have h' := applyOp_le goodC_both e u v op h
  obtain ⟨ho1, ho2⟩ := tame_both_ok e.o
  refine ⟨fun hu hj => C01_applyOp_netloc_ascii (tameE cgBoth e) u v op ho1 hu ha hj h', fun hu hj => ?_⟩
  exact (inv_uiSpec_iff (tameE cgBoth e) ho2 v).mp
    (applyOp_inv (uiSpec (tameE cgBoth e) ho2) ((inv_uiSpec_iff (tameE cgBoth e) ho2 u).mpr hu) op ha
      (fun ref hr => (inv_uiSpec_iff (tameE cgBoth e) ho2 ref).mpr (hj ref hr)) h')

/-- ITEM 7, `build(host=…)` (no `authority=`): the result satisfies both invariants, no oracle hypothesis, no
    condition on the host text (it is validated) -/
theorem C01_build_host_no_oracle (e : Env) (a : BuildArgs) (u : Url) (henc : a.encoded = false) (hn : BuildNetPy a)
    (hauth : a.authority = []) : build e a = .ok u → AsciiNet u ∧ UserinfoOK e.b u := by
  intro h
  have hloc : IdnaLocalOK cgBoth e.o (hostinfo a.authority) := by
    intro hna; rw [hauth] at hna; exact absurd hna (by decide)
  have h' := build_tame goodC_both e a hloc u h
  obtain ⟨ho1, ho2⟩ := tame_both_ok e.o
  refine ⟨C01_build_netloc_ascii (tameE cgBoth e) a u ho1 henc hn (by rw [hauth]; intro c hc; cases hc) h', ?_⟩
  exact (inv_uiSpec_iff (tameE cgBoth e) ho2 u).mp
    (build_inv (uiSpec (tameE cgBoth e) ho2) a u henc hn.1 hn.2.1 hn.2.2
      (fun c hc e64 => hostinfo_noAt a.authority (e64 ▸ zoneOf_sub hc)) h').1

/-- ITEM 7, the CONSTRUCTOR — one of the two routes that still need an oracle hypothesis, but only the LOCAL one: about
    the IDNA answer for the host name of THIS input (nothing when that host name is ASCII) -/
theorem C01_encodeUrl_local_oracle (e : Env) (s : Str) (u : Url) (hs : PyStr s) :
    encodeUrl e s = .ok u →
    ((∀ p, splitUrl e.o s = .ok p → ZoneAscii (hostinfo p.netloc) ∧ IdnaLocalAscii e.o (hostinfo p.netloc)) →
      AsciiNet u) ∧
    ((∀ p, splitUrl e.o s = .ok p → IdnaLocalNoAt e.o (hostinfo p.netloc)) → UserinfoOK e.b u) := by
  intro h
  constructor
  · intro hz
    have h' := encodeUrl_tame goodC_ascii e s (fun p hp => (localAscii_iff _ _).mp (hz p hp).2) u h
    exact C01_encodeUrl_netloc_ascii (tameE cgAscii e) s u (tame_ascii_ok _) hs (fun p hp => (hz p hp).1) h'
  · intro hz
    have h' := encodeUrl_tame goodC_noAt e s (fun p hp => (localNoAt_iff _ _).mp (hz p hp)) u h
    have ho := tame_noAt_ok e.o
    exact (inv_uiSpec_iff (tameE cgNoAt e) ho u).mp (encodeUrl_inv (uiSpec (tameE cgNoAt e) ho) s hs u
      (fun p _ c hc e64 => hostinfo_noAt p.netloc (e64 ▸ zoneOf_sub hc)) h')

/-- ITEM 7, `build(authority=…)` — the other route: same LOCAL hypothesis on the `authority=` text.  (With
    `authority = []` the hypotheses hold trivially: C01_build_host_no_oracle.) -/
theorem C01_build_local_oracle (e : Env) (a : BuildArgs) (u : Url) (henc : a.encoded = false) (hn : BuildNetPy a) :
    build e a = .ok u →
    (ZoneAscii (hostinfo a.authority) → IdnaLocalAscii e.o (hostinfo a.authority) → AsciiNet u) ∧
    (IdnaLocalNoAt e.o (hostinfo a.authority) → UserinfoOK e.b u) := by
  intro h
  constructor
  · intro hz hl
    have h' := build_tame goodC_ascii e a ((localAscii_iff _ _).mp hl) u h
    exact C01_build_netloc_ascii (tameE cgAscii e) a u (tame_ascii_ok _) henc hn hz h'
  · intro hl
    have h' := build_tame goodC_noAt e a ((localNoAt_iff _ _).mp hl) u h
    have ho := tame_noAt_ok e.o
    exact (inv_uiSpec_iff (tameE cgNoAt e) ho u).mp
      (build_inv (uiSpec (tameE cgNoAt e) ho) a u henc hn.1 hn.2.1 hn.2.2
        (fun c hc e64 => hostinfo_noAt a.authority (e64 ▸ zoneOf_sub hc)) h').1

/-- the global hypotheses imply the local ones: the theorems below subsume those of C01Str.lean -/
theorem C01_local_oracle_of_global (o : Oracles) (hi : Str) :
    (HostOracleAscii o → IdnaLocalAscii o hi) ∧ (HostOracleNoAt o → IdnaLocalNoAt o hi) := by
  constructor
  · intro ho _ y hy
    exact idnaEncode_chars (C := fun c => c < 128) (fun c h => (HostLemmas.lowerC_lt h).1) ho _ y hy
  · intro ho _ y hy hm
    exact idnaEncode_chars (C := fun c => c ≠ 64)
      (fun c h e64 => h ((HostLemmas.lowerC_eq_iff c 64 (by omega)).mp e64))
      (fun h r hr c hc e64 => ho h r hr (e64 ▸ hc)) _ y hy 64 hm rfl

/-- ITEM 7, closure form of item 1: the stored authority (and the pre-filled cache) of every reachable URL is ASCII —
    `HostOracleAscii` replaced by the LOCAL condition on the constructor / `build(authority=)` inputs (`Z` of `ReachS`).
    Every other step (with_host, build(host=), …) needs nothing. -/
theorem C01_reachable_netloc_ascii_local (e : Env) (Sc : Str → Prop) (J : Url → Prop) (u : Url)
    (hJ : ∀ r, J r → AsciiNet r) :
    ReachS (fun hi => ZoneAscii hi ∧ IdnaLocalAscii e.o hi) Sc J e u → AsciiNet u := by
  intro h
  have h1 : ReachS (fun hi => ZoneAscii hi ∧ IdnaLocalOK cgAscii e.o hi) Sc J e u :=
    h.mono (fun x hx => ⟨hx.1, (localAscii_iff _ _).mp hx.2⟩) (fun _ h => h) (fun _ h => h)
  exact C01_reachable_netloc_ascii (tameE cgAscii e) Sc J u (tame_ascii_ok _) hJ (reachS_tame goodC_ascii h1)

/-- ITEM 7, closure form of items 3–4: the userinfo invariant along `ReachS` with the LOCAL form of `HostOracleNoAt` -/
theorem C01_reachable_userinfo_ok_local (e : Env) (Z Sc : Str → Prop) (J : Url → Prop) (u : Url)
    (hJ : ∀ x, J x → UserinfoOK e.b x) :
    ReachS (fun hi => Z hi ∧ IdnaLocalNoAt e.o hi) Sc J e u → UserinfoOK e.b u := by
  intro h
  have h1 : ReachS (fun hi => Z hi ∧ IdnaLocalOK cgNoAt e.o hi) Sc J e u :=
    h.mono (fun x hx => ⟨hx.1, (localNoAt_iff _ _).mp hx.2⟩) (fun _ h => h) (fun _ h => h)
  exact C01_reachable_userinfo_ok (tameE cgNoAt e) Z Sc J u (tame_noAt_ok _) hJ (reachS_tame goodC_noAt h1)

/-- ITEM 7 ∘ item 2: "the string form is pure ASCII", "bytes(url) never fails" with the local oracle condition -/
theorem C01_str_ascii_reachable_local (e : Env) (Sc : Str → Prop) (J : Url → Prop) (u : Url) (r : Str)
    (hJ : ∀ x, J x → AsciiNet x)
    (hreach : ReachS (fun hi => ZoneAscii hi ∧ IdnaLocalAscii e.o hi) Sc J e u)
    (hscheme : ∀ c ∈ u.scheme, c < 128) (hstr : str e u = .ok r) :
    (∀ c ∈ r, c < 128) ∧ r.all (fun c => decide (c < 128)) = true := by
  have := C01_str_ascii_of_asciiNet e u r (C01_reachable_wf e u hreach.toReach) hscheme
    (C01_reachable_netloc_ascii_local e Sc J u hJ hreach) hstr
  exact ⟨this, by simpa using this⟩

/-- ITEM 7 ∘ item 3: raw_user / raw_password of every reachable URL with the local oracle condition -/
theorem C01_userinfo_chars_reachable_local (e : Env) (Z Sc : Str → Prop) (J : Url → Prop) (u : Url) (x : Str)
    (hJ : ∀ y, J y → UserinfoOK e.b y) (hreach : ReachS (fun hi => Z hi ∧ IdnaLocalNoAt e.o hi) Sc J e u) :
    (rawUser e u = .ok (some x) ∨ rawPassword e u = .ok (some x)) →
    (∀ c ∈ x, (Rfc.userinfoLit c = true ∧ c ≠ 58) ∨ c = 37) ∧ WellEscaped x ∧ (∀ c ∈ x, c < 128) := by
  intro hx
  have hu := C01_reachable_userinfo_ok_local e Z Sc J u hJ hreach
  obtain ⟨h1, h2, _⟩ := C01_userinfo_accessors (tameE cgNoAt e) u (tame_noAt_ok _) hu
  rcases hx with hx | hx
  · exact C01_uiText_chars e.b x (h1 x hx)
  · exact C01_uiText_chars e.b x (h2 x hx)

/-! ### which routes still need an oracle hypothesis: hostile-oracle witnesses -/

namespace R11
/-- a hostile table: `idna.encode` answers 'é' (NOT ASCII) for every host; NFKC is the identity -/
def hostileAscii : Oracles :=
  { Oracles.empty with nfkc := fun s => some s, isDigitU := fun _ => some false, idnaEnc := fun _ => some (some [233]) }
/-- a hostile table: `idna.encode` raises, the stdlib codec answers '<@b' (ASCII, but with an '@') for every host; NFKC
    is the identity (so the '＠' → '@' screen does not fire: the table is NOT consistent with the real NFKC) -/
def hostileAt : Oracles :=
  { Oracles.empty with nfkc := fun s => some s, isDigitU := fun _ => some false, idnaEnc := fun _ => some none,
                       idnaEncStd := fun _ => some (some "<@b".toStr) }
end R11

/-- ROUTE 1 needs `HostOracleAscii` (its local form): with a table whose `idna.encode` answers 'é',
    `URL('http://é/')` stores the authority 'é' and renders as 'http://é/' — every other hypothesis of
    C01_headline_str_ascii_reachable holds (Python string, no zone id, ASCII scheme), and `HostOracleNoAt` holds too. -/
theorem C01_constructor_needs_oracle_ascii :
    let e : Env := ⟨.py, hostileAscii⟩
    let s : Str := "http://".toStr ++ [233] ++ "/".toStr
    PyStr s ∧ HostOracleNoAt e.o ∧ ¬ HostOracleAscii e.o ∧
    (∀ p, splitUrl e.o s = .ok p → ZoneAscii (hostinfo p.netloc) ∧ ¬ IdnaLocalAscii e.o (hostinfo p.netloc)) ∧
    ∃ u, encodeUrl e s = .ok u ∧ Reach e u ∧ u.netloc = [233] ∧ (∀ c ∈ u.scheme, c < 128) ∧ str e u = .ok s ∧
      ¬ (∀ c ∈ s, c < 128) := by
  intro e s
  have hu : encodeUrl e s = .ok
      { scheme := "http".toStr, netloc := [233], path := "/".toStr, query := [], fragment := [],
        pre := some { rawHost := some [233], explicitPort := none, rawUser := none, rawPassword := none } } := by
    decide +kernel
  have hsp : splitUrl e.o s = .ok { scheme := "http".toStr, netloc := [233], path := "/".toStr, query := [], fragment := [] } := by
    decide +kernel
  refine ⟨by decide, ?_, ?_, ?_, _, hu, Reach.ctor s _ (by decide) hu, rfl, by decide, by decide +kernel, ?_⟩
  · intro h r hr hm
    rcases hr with hr | hr
    · have : r = [233] := by
        have : some (some [233]) = some (some r) := hr
        simpa using this.symm
      subst this; exact absurd hm (by decide)
    · cases hr
  · intro h
    exact absurd (h [] [233] (Or.inl rfl) 233 (by decide)) (by decide)
  · intro p hp
    rw [hsp] at hp; cases hp
    refine ⟨by decide, ?_⟩
    intro h
    exact absurd (h (by decide) [233] (by decide +kernel) 233 (by decide)) (by decide)
  · intro h
    exact absurd (h 233 (by decide)) (by decide)

/-- ROUTE 2 needs it as well: `URL.build(scheme='http', authority='é')` with the same table stores 'é' -/
theorem C01_build_authority_needs_oracle_ascii :
    let e : Env := ⟨.py, hostileAscii⟩
    let a : BuildArgs := { scheme := "http".toStr, authority := [233] }
    BuildNetPy a ∧ ZoneAscii (hostinfo a.authority) ∧ ¬ IdnaLocalAscii e.o (hostinfo a.authority) ∧
    ∃ u, build e a = .ok u ∧ Reach e u ∧ u.netloc = [233] ∧ str e u = .ok ("http://".toStr ++ [233]) := by
  intro e a
  have hu : build e a = .ok (fromParts "http".toStr [233] [] [] []) := by decide +kernel
  refine ⟨⟨fun x hx => (by cases hx), fun x hx => (by cases hx), by decide⟩, by decide, ?_, _, hu,
    Reach.build a _ rfl ⟨by decide, by decide, by decide, trivial⟩ hu, rfl, by decide +kernel⟩
  intro h
  exact absurd (h (by decide) [233] (by decide +kernel) 233 (by decide)) (by decide)

/-- … and the VALIDATING routes do not: with the same two hostile tables `with_host('é')`, `build(host='é')`,
    `with_host('a＠b')`, `build(host='a＠b')` all raise ValueError — the answer is screened by `NOT_REG_NAME` -/
theorem C01_hostile_oracle_screened_on_validating_routes :
    (∀ u, encodeUrl ⟨.py, hostileAscii⟩ "http://h/".toStr = .ok u →
      withHost ⟨.py, hostileAscii⟩ u [233] = .error .valueError) ∧
    build ⟨.py, hostileAscii⟩ { scheme := "http".toStr, host := [233] } = .error .valueError ∧
    (∀ u, encodeUrl ⟨.py, hostileAt⟩ "http://h/".toStr = .ok u →
      withHost ⟨.py, hostileAt⟩ u [97, 0xFF20, 98] = .error .valueError) ∧
    build ⟨.py, hostileAt⟩ { scheme := "http".toStr, host := [97, 0xFF20, 98] } = .error .valueError := by
  have h1 : (encodeUrl ⟨.py, hostileAscii⟩ "http://h/".toStr).bind (fun u => withHost ⟨.py, hostileAscii⟩ u [233]) =
      .error .valueError := by decide +kernel
  have h2 : (encodeUrl ⟨.py, hostileAt⟩ "http://h/".toStr).bind (fun u => withHost ⟨.py, hostileAt⟩ u [97, 0xFF20, 98]) =
      .error .valueError := by decide +kernel
  refine ⟨fun u hu => by rw [hu] at h1; exact h1, by decide +kernel, fun u hu => by rw [hu] at h2; exact h2,
    by decide +kernel⟩

/-- ROUTE 1 needs `HostOracleNoAt` (its local form): with a table whose IDNA answer for 'a＠b' is '<@b' (and whose NFKC
    does not map '＠' to '@' — with the real NFKC the input is rejected, C01_idna_answer_with_at_now_rejected),
    `URL('http://a＠b/')` stores the authority '<@b'; a copy of it (lazily parsed) answers raw_user '<' — not an RFC 3986
    userinfo character.  `HostOracleAscii` holds of this table.  (`build(authority=)`: C01_idna_answer_with_at_hypothetical.) -/
theorem C01_constructor_needs_oracle_no_at :
    let e : Env := ⟨.py, hostileAt⟩
    let s : Str := "http://".toStr ++ [97, 0xFF20, 98] ++ "/".toStr
    PyStr s ∧ HostOracleAscii e.o ∧ ¬ HostOracleNoAt e.o ∧
    ∃ u, encodeUrl e s = .ok u ∧ Reach e (pickleTwin u) ∧ u.netloc = "<@b".toStr ∧
      rawUser e (pickleTwin u) = .ok (some "<".toStr) ∧ ¬ (Rfc.userinfoLit 60 = true ∨ 60 = 37) ∧
      ¬ UserinfoOK e.b u := by
  intro e s
  have hu : encodeUrl e s = .ok
      { scheme := "http".toStr, netloc := "<@b".toStr, path := "/".toStr, query := [], fragment := [],
        pre := some { rawHost := some "<@b".toStr, explicitPort := none, rawUser := none, rawPassword := none } } := by
    decide +kernel
  refine ⟨by decide, ?_, ?_, _, hu, Reach.op _ .copy _ (Reach.ctor s _ (by decide) hu) trivial rfl, rfl,
    by decide +kernel, by decide, ?_⟩
  · intro h r hr c hc
    rcases hr with hr | hr
    · have : some (none : Option Str) = some (some r) := hr
      cases this
    · have : r = "<@b".toStr := by
        have : some (some "<@b".toStr) = some (some r) := hr
        simpa using this.symm
      subst this
      revert c; decide
  · intro h
    exact absurd (h [] "<@b".toStr (Or.inr rfl)) (by decide)
  · intro h
    have := h.user "<".toStr (by decide +kernel)
    have h2 := (C01_uiText_chars .py _ this).1 60 (by decide)
    revert h2; decide

/-! ## ITEM 6 — the whole string form, outside the host -/

/-- ITEM 6, from the invariant.  The string form of a record whose stored authority satisfies `UserinfoOK` and whose
    path / query / fragment are well-formed is `pre ++ hostText ++ suf`, where `hostText` is the `host[:port]` text
    (`hostinfo N`: what follows the last '@') of the authority `N` that `str` renders — `N` ends where `suf` begins
    (`pre ++ hostText = a ++ N`) and is the stored authority, or `make_netloc(raw_user, raw_password,
    host_subcomponent, None)` when the explicit port is the scheme's default and is dropped, or nothing when no
    authority is rendered) and contains every character of `raw_host`; and OUTSIDE `hostText`:
     * every '%' starts an escape of two upper-case hex digits (`WellEscaped pre`, `WellEscaped suf`),
     * every character is ASCII,
     * no character is a raw space, control character, double quote, `<>\^`{|}` or DEL (`NF`),
    `pre` under the corresponding condition on the scheme (F-C01-scheme), `suf` unconditionally.
    No condition on the host: zone ids (verbatim) and lower-case host escapes live inside `hostText`. -/
theorem C01_str_outside_host_of_inv (e : Env) (u : Url) (r : Str) (ho : HostOracleNoAt e.o)
    (hu : UserinfoOK e.b u) (hw : WFUrl e.b u) (hstr : str e u = .ok r) :
    ∃ pre hostText suf, r = pre ++ hostText ++ suf ∧
      (∃ N, hostText = hostinfo N ∧ (∃ a, pre ++ hostText = a ++ N) ∧
        (N = [] ∨ N = u.netloc ∨ ∃ p hs, explicitPort e u = .ok (some p) ∧ some p = defaultPort u.scheme ∧
          hostSubcomponent e u = .ok hs ∧ hostinfo N = hs.getD []) ∧
        (N ≠ [] → ∀ x, rawHost e u = .ok (some x) → ∀ c ∈ x, c ∈ hostText)) ∧
      (37 ∉ u.scheme → WellEscaped pre) ∧ WellEscaped suf ∧
      ((∀ c ∈ u.scheme, c < 128) → ∀ c ∈ pre, c < 128) ∧ (∀ c ∈ suf, c < 128) ∧
      ((∀ c ∈ u.scheme, NF c) → ∀ c ∈ pre, NF c) ∧ (∀ c ∈ suf, NF c) := by
  obtain ⟨N, pre, suf, hr, hcut, hN, hrh, hP⟩ := str_decomp_of_inv e u r ho hu hstr
  obtain ⟨⟨a1, w1, l1⟩, ⟨a2, w2, l2⟩, ⟨a3, w3, l3⟩⟩ := C01_wf_components e.b u hw
  have nfq : ∀ c, Rfc.queryLit c = true ∨ c = 37 → NF c := fun c h => HeadA.lit_not_forbidden c h
  obtain ⟨p1, p2⟩ := hP WellEscaped glue_wellEscaped (wellEscaped_of_no_pct (by decide))
    (wellEscaped_of_no_pct (by decide)) (wellEscaped_of_no_pct (by decide)) (wellEscaped_of_no_pct (by decide))
    (wellEscaped_of_no_pct (by decide)) w1 w2 w3 (fun x hx => uiText_wellEscaped hx)
  obtain ⟨q1, q2⟩ := hP (fun s => ∀ c ∈ s, c < 128) (glue_chars _) (by decide) (by decide) (by decide) (by decide)
    (by decide) a1 a2 a3 (fun x hx => (C01_uiText_chars e.b x hx).2.2)
  obtain ⟨n1, n2⟩ := hP (fun s => ∀ c ∈ s, NF c) (glue_chars _) (by unfold NF; decide) (by unfold NF; decide)
    (by unfold NF; decide) (by unfold NF; decide) (by unfold NF; decide)
    (fun c hc => nfq c ((l1 c hc).imp HeadA.pathLit_queryLit id)) (fun c hc => nfq c (l2 c hc))
    (fun c hc => nfq c (l3 c hc))
    (fun x hx c hc => nfq c (((C01_uiText_chars e.b x hx).1 c hc).imp (fun h => HeadA.userinfoLit_queryLit h.1) id))
  exact ⟨pre, hostinfo N, suf, hr, ⟨N, rfl, hcut, hN, hrh⟩, fun hs => p1 (wellEscaped_of_no_pct hs), p2, q1, q2, n1, n2⟩

/-- ITEM 6, ONE whole-string theorem for every reachable URL.  `Z` arbitrary — NO `ZoneAscii` side condition, NO guard
    "no '%' in the host" (compare C01_str_well_escaped, C01_str_ascii_reachable): KNOWN FINDINGS F-C01-host-percent and
    F-C01-nonascii-zone are confined to `hostText`.  Oracle hypothesis: only the LOCAL `IdnaLocalNoAt` on the
    constructor / `build(authority=)` inputs.  `UOp.joinRef` references must satisfy `UserinfoOK` (model artefact). -/
theorem C01_str_outside_host (e : Env) (Z Sc : Str → Prop) (J : Url → Prop) (u : Url) (r : Str)
    (hJ : ∀ x, J x → UserinfoOK e.b x)
    (hreach : ReachS (fun hi => Z hi ∧ IdnaLocalNoAt e.o hi) Sc J e u) (hstr : str e u = .ok r) :
    ∃ pre hostText suf, r = pre ++ hostText ++ suf ∧
      (∃ N, hostText = hostinfo N ∧ (∃ a, pre ++ hostText = a ++ N) ∧
        (N = [] ∨ N = u.netloc ∨ ∃ p hs, explicitPort e u = .ok (some p) ∧ some p = defaultPort u.scheme ∧
          hostSubcomponent e u = .ok hs ∧ hostinfo N = hs.getD []) ∧
        (N ≠ [] → ∀ x, rawHost e u = .ok (some x) → ∀ c ∈ x, c ∈ hostText)) ∧
      (37 ∉ u.scheme → WellEscaped pre) ∧ WellEscaped suf ∧
      ((∀ c ∈ u.scheme, c < 128) → ∀ c ∈ pre, c < 128) ∧ (∀ c ∈ suf, c < 128) ∧
      ((∀ c ∈ u.scheme, NF c) → ∀ c ∈ pre, NF c) ∧ (∀ c ∈ suf, NF c) :=
  C01_str_outside_host_of_inv (tameE cgNoAt e) u r (tame_noAt_ok _)
    (C01_reachable_userinfo_ok_local e Z Sc J u hJ hreach) (C01_reachable_wf e u hreach.toReach) hstr

/-- ITEM 6 in positions: in the string form `r = pre ++ hostText ++ suf` of the previous theorem, a '%' at an index
    that is NOT inside `hostText` is followed by two upper-case hex digits (inside `r`) -/
theorem C01_percent_outside_host_positions (pre hostText suf : Str) (h1 : WellEscaped pre) (h2 : WellEscaped suf)
    (i : Nat) (hi : (pre ++ hostText ++ suf)[i]? = some 37)
    (hout : i < pre.length ∨ pre.length + hostText.length ≤ i) :
    ∃ a b, (pre ++ hostText ++ suf)[i+1]? = some a ∧ (pre ++ hostText ++ suf)[i+2]? = some b ∧
      isUpperHexDigit a = true ∧ isUpperHexDigit b = true :=
  pct_outside pre hostText suf h1 h2 i hi hout

/-! ## ITEM 8 — `ReachS` versus `Reach` -/

/-- ITEM 8: `BuildNetPy` can NOT be discharged — a MODEL ARTEFACT, not a library behaviour.  `Reach.build` asks
    Python strings of path / query / fragment only; with the model-only code point 0x110000 as `user=` the C backend's
    quoter passes it through unchanged, so `build(scheme='http', user=…, host='h')` is `Reach`, stores the authority
    '\u{110000}@h' and renders non-ASCII; the oracle hypotheses hold (empty table), there is no zone id, no `join`, an ASCII
    scheme.  The URL is not `ReachS` (with `J` = the invariant).  The Python backend drops the code point instead.  No
    Python `str` contains such a code point: the theorems over `ReachS` lose nothing the library can do. -/
theorem C01_reach_build_nonpython_user_counterexample :
    let e : Env := ⟨.c, Oracles.empty⟩
    let a : BuildArgs := { scheme := "http".toStr, host := "h".toStr, user := some [0x110000] }
    ¬ BuildNetPy a ∧ HostOracleAscii e.o ∧ HostOracleNoAt e.o ∧
    (∃ u, build e a = .ok u ∧ Reach e u ∧ u.netloc = [0x110000, 64, 104] ∧ (∀ c ∈ u.scheme, c < 128) ∧
      str e u = .ok ("http://".toStr ++ [0x110000] ++ "@h".toStr) ∧ ¬ AsciiNet u ∧
      ¬ ReachS ZoneAscii (fun _ => True) AsciiNet e u) ∧
    build ⟨.py, Oracles.empty⟩ a = .ok (fromParts "http".toStr "h".toStr [] [] []) := by
  intro e a
  have hu : build e a = .ok (fromParts "http".toStr [0x110000, 64, 104] [] [] []) := by decide +kernel
  have hna : ¬ AsciiNet (fromParts "http".toStr [0x110000, 64, 104] [] [] []) :=
    fun h => absurd (h.1 0x110000 (by decide)) (by decide)
  refine ⟨fun h => absurd (h.1 _ rfl 0x110000 (by decide)) (by decide), C01_oracle_empty_ok.1, C01_oracle_empty_ok.2,
    ⟨_, hu, Reach.build a _ rfl ⟨by decide, by decide, by decide, trivial⟩ hu, rfl, by decide, by decide +kernel, hna, ?_⟩,
    by decide +kernel⟩
  intro hr
  exact hna (C01_reachable_netloc_ascii e _ _ _ C01_oracle_empty_ok.1 (fun _ h => h) hr)

/-- ITEM 8, what remains of the side conditions for the API closure.  `ReachS (Z) (fun _ => True) (fun _ => False)`:
    the constructor, `build` (Python strings), the 18 operations other than the model-only `UOp.joinRef`, and `join` of
    two reachable URLs; no condition on schemes, none on zone ids; `Z` only carries the LOCAL oracle condition.  Every
    such URL is `Reach`, and for its string form the property's last sentence holds: OUTSIDE the host text every '%'
    starts an upper-case escape, every character is ASCII and none is a raw space / control / quote / `<>\^`{|}` — the
    part before the host under the corresponding condition on the stored scheme (KNOWN FINDING F-C01-scheme; automatic
    for constructor results: C01_headline_no_raw_forbidden_chars_scheme). -/
theorem C01_api_outside_host (e : Env) (u : Url) (r : Str)
    (hreach : ReachS (fun hi => True ∧ IdnaLocalNoAt e.o hi) (fun _ => True) (fun _ => False) e u)
    (hstr : str e u = .ok r) :
    Reach e u ∧
    ∃ pre hostText suf, r = pre ++ hostText ++ suf ∧
      (∃ N, hostText = hostinfo N ∧ (∃ a, pre ++ hostText = a ++ N) ∧
        (N = [] ∨ N = u.netloc ∨ ∃ p hs, explicitPort e u = .ok (some p) ∧ some p = defaultPort u.scheme ∧
          hostSubcomponent e u = .ok hs ∧ hostinfo N = hs.getD []) ∧
        (N ≠ [] → ∀ x, rawHost e u = .ok (some x) → ∀ c ∈ x, c ∈ hostText)) ∧
      (37 ∉ u.scheme → WellEscaped pre) ∧ WellEscaped suf ∧
      ((∀ c ∈ u.scheme, c < 128) → ∀ c ∈ pre, c < 128) ∧ (∀ c ∈ suf, c < 128) ∧
      ((∀ c ∈ u.scheme, NF c) → ∀ c ∈ pre, NF c) ∧ (∀ c ∈ suf, NF c) :=
  ⟨hreach.toReach, C01_str_outside_host e (fun _ => True) (fun _ => True) (fun _ => False) u r (fun _ h => h.elim)
    hreach hstr⟩

/-! ## non-vacuity -/

namespace R11
/-- URL('HTTP://us er:p%2fw@[FE80::1%eth0]:80/a b?x=1#f'): user, password, an IPv6 literal with a zone id (a '%' that is
    NOT an escape), the default port (dropped by `str`: the authority is re-made) -/
def zUrl : Str := "HTTP://us er:p%2fw@[FE80::1%eth0]:80/a b?x=1#f".toStr
def zU : Url :=
  { scheme := "http".toStr, netloc := "us%20er:p%2Fw@[fe80::1%eth0]:80".toStr, path := "/a%20b".toStr,
    query := "x=1".toStr, fragment := "f".toStr,
    pre := some { rawHost := some "fe80::1%eth0".toStr, explicitPort := some 80, rawUser := some "us%20er".toStr,
                  rawPassword := some "p%2Fw".toStr } }
theorem z_ctor : encodeUrl demoEnv zUrl = .ok zU := by decide +kernel
theorem z_reach : ReachS (fun hi => True ∧ IdnaLocalNoAt demoEnv.o hi) (fun _ => True) (fun _ => False) demoEnv zU := by
  refine ReachS.ctor zUrl zU (by decide) ?_ z_ctor
  intro p hp
  have : splitUrl demoEnv.o zUrl = .ok ⟨"http".toStr, "us er:p%2fw@[FE80::1%eth0]:80".toStr, "/a b".toStr, "x=1".toStr,
      "f".toStr⟩ := by decide +kernel
  rw [this] at hp; cases hp
  exact ⟨trivial, fun h => absurd h (by decide +kernel)⟩
end R11

/-- the whole-string theorem applies to it; its string form is NOT `WellEscaped` as a whole (the zone id), so the old
    guarded theorem (C01_str_well_escaped) says nothing — the new one confines the defect to the host text -/
example : str demoEnv zU = .ok "http://us%20er:p%2Fw@[fe80::1%eth0]/a%20b?x=1#f".toStr ∧
    ¬ WellEscaped "http://us%20er:p%2Fw@[fe80::1%eth0]/a%20b?x=1#f".toStr ∧
    ∃ pre hostText suf, "http://us%20er:p%2Fw@[fe80::1%eth0]/a%20b?x=1#f".toStr = pre ++ hostText ++ suf ∧
      WellEscaped pre ∧ WellEscaped suf ∧ (∀ c ∈ pre, c < 128 ∧ NF c) ∧ (∀ c ∈ suf, c < 128 ∧ NF c) := by
  have hs : str demoEnv zU = .ok "http://us%20er:p%2Fw@[fe80::1%eth0]/a%20b?x=1#f".toStr := by decide +kernel
  obtain ⟨_, pre, H, suf, h1, _, h2, h3, h4, h5, h6, h7⟩ := C01_api_outside_host demoEnv zU _ z_reach hs
  refine ⟨hs, ?_, pre, H, suf, h1, h2 (by decide), h3,
    fun c hc => ⟨h4 (by decide) c hc, h6 (by unfold NF; decide) c hc⟩, fun c hc => ⟨h5 c hc, h7 c hc⟩⟩
  have : "http://us%20er:p%2Fw@[fe80::1%eth0]/a%20b?x=1#f".toStr =
      [104, 116, 116, 112, 58, 47, 47, 117, 115, 37, 50, 48, 101, 114, 58, 112, 37, 50, 70, 119, 64, 91, 102, 101, 56, 48,
       58, 58, 49, 37, 101, 116, 104, 48, 93, 47, 97, 37, 50, 48, 98, 63, 120, 61, 49, 35, 102] := by decide
  rw [this]; simp [WellEscaped, isUpperHexDigit]

/-- the concrete cut of that string form: 'http://us%20er:p%2Fw@' ++ '[fe80::1%eth0]' ++ '/a%20b?x=1#f' -/
example : unsplitParts zU.scheme "us%20er:p%2Fw@[fe80::1%eth0]".toStr zU.path zU.query zU.fragment =
      ("http://".toStr, "us%20er:p%2Fw@[fe80::1%eth0]".toStr, "/a%20b?x=1#f".toStr) ∧
    userinfoAt "us%20er:p%2Fw@[fe80::1%eth0]".toStr = "us%20er:p%2Fw@".toStr ∧
    hostinfo "us%20er:p%2Fw@[fe80::1%eth0]".toStr = "[fe80::1%eth0]".toStr := by decide +kernel

/-- the local oracle conditions are met by every ASCII input, whatever the oracle table -/
example (o : Oracles) : IdnaLocalAscii o "example.com:8080".toStr ∧ IdnaLocalNoAt o "[fe80::1%eth0]:80".toStr :=
  ⟨fun h => absurd h (by decide +kernel), fun h => absurd h (by decide +kernel)⟩

/-- `with_host` on a constructor result against the HOSTILE table `hostileAscii`, IDN argument included: both
    invariants survive (here: the call is rejected; with an ASCII argument it succeeds) — C01_with_host_no_oracle needs no
    oracle hypothesis, while `HostOracleAscii` is false of this table -/
example (u v : Url) (hu : encodeUrl ⟨.py, hostileAscii⟩ "http://h/".toStr = .ok u)
    (hv : withHost ⟨.py, hostileAscii⟩ u "EXAMPLE.com".toStr = .ok v) : AsciiNet v :=
  (C01_with_host_no_oracle _ u v _ hv).1
    ((C01_encodeUrl_local_oracle ⟨.py, hostileAscii⟩ _ u (by decide) hu).1 (fun p hp => by
      have : splitUrl hostileAscii "http://h/".toStr = .ok ⟨"http".toStr, "h".toStr, "/".toStr, [], []⟩ := by
        decide +kernel
      have hp' : splitUrl hostileAscii "http://h/".toStr = .ok p := hp
      rw [this] at hp'; cases hp'
      exact ⟨by decide, fun h => absurd h (by decide +kernel)⟩))

end Yarl
