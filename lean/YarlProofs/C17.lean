/-
  C17.lean — port semantics: explicit vs default port, 0 vs absent, `with_port`,
  `str()` / `host_port_subcomponent` omitting a default port.
-/
import YarlModel
import YarlProofs.Lemmas.NetlocLemmas
namespace Yarl
open NetlocLemmas

/-- pins the generated default-port table -/
theorem C17_default_ports :
    defaultPort "http".toStr = some 80 ∧ defaultPort "https".toStr = some 443 ∧
    defaultPort "ws".toStr = some 80 ∧ defaultPort "wss".toStr = some 443 ∧
    defaultPort "ftp".toStr = some 21 := by decide

/-- `URL.port` is the explicit port, else the scheme default -/
theorem C17_port_fallback (e : Env) (u : Url) (ep : Option Nat) :
    explicitPort e u = .ok ep → port e u = .ok (ep <|> defaultPort u.scheme) := by
  intro h
  unfold port
  rw [h]
  cases ep <;> rfl

/-- an explicit port read lazily from the netloc is always in range -/
theorem C17_explicit_port_range (e : Env) (u : Url) (p : Nat) :
    u.pre = none → explicitPort e u = .ok (some p) → p ≤ 65535 := by
  intro hpre h
  unfold explicitPort net at h
  rw [hpre] at h
  unfold lazyNet at h
  cases hs : splitNetloc e.o u.netloc with
  | error err => simp [hs, bind, Except.bind, Except.map] at h
  | ok np =>
    simp [hs, bind, Except.bind, Except.map, pure, Except.pure] at h
    exact splitNetloc_port_range e.o u.netloc np p hs h

/-- the explicit port of a URL whose netloc was written by `make_netloc` is exactly the
    port written (`some p`, including `some 0`, or `none`) -/
theorem C17_explicit_port_value (e : Env) (qf : Str → Str) (user pw : Option Str) (h : Str) (port : Option Nat)
    (scheme path query fragment : Str)
    (hu : UserOK user) (hh : HostOK h) (hp : ∀ p, port = some p → p ≤ 65535) :
    explicitPort e (fromParts scheme (makeNetloc qf user pw (some (bracket h)) port false) path query fragment)
      = .ok port :=
  explicitPort_std e qf user pw h port scheme path query fragment hu hh hp

/-- port 0 is distinct from an absent port -/
theorem C17_zero_distinct (e : Env) (qf : Str → Str) (user pw : Option Str) (h : Str)
    (scheme path query fragment : Str) (hu : UserOK user) (hh : HostOK h) :
    explicitPort e (fromParts scheme (makeNetloc qf user pw (some (bracket h)) (some 0) false) path query fragment)
      = .ok (some 0) ∧
    explicitPort e (fromParts scheme (makeNetloc qf user pw (some (bracket h)) none false) path query fragment)
      = .ok none ∧
    explicitPort e (fromParts scheme (makeNetloc qf user pw (some (bracket h)) (some 0) false) path query fragment)
      ≠ explicitPort e (fromParts scheme (makeNetloc qf user pw (some (bracket h)) none false) path query fragment) := by
  have h0 := C17_explicit_port_value e qf user pw h (some 0) scheme path query fragment hu hh
    (by intro p hp; cases hp; omega)
  have hn := C17_explicit_port_value e qf user pw h none scheme path query fragment hu hh
    (by intro p hp; cases hp)
  refine ⟨h0, hn, ?_⟩
  rw [h0, hn]
  intro hc; cases hc

theorem C17_is_default_port (e : Env) (u : Url) (ep : Option Nat) :
    explicitPort e u = .ok ep →
    isDefaultPort e u = .ok (match ep with
      | none => !u.netloc.isEmpty
      | some p => decide (some p = defaultPort u.scheme)) := by
  intro h
  unfold isDefaultPort
  rw [h]
  cases ep <;> rfl

theorem C17_with_port_rejects (e : Env) (u : Url) (p : Option Int) (k : Nat) :
    (k ≠ 0 → withPort e u p k = .error .typeError) ∧
    (k = 0 → (∃ v, p = some v ∧ (v < 0 ∨ 65535 < v)) → withPort e u p k = .error .valueError) := by
  constructor
  · intro hk
    unfold withPort
    simp [hk]
  · rintro rfl ⟨v, rfl, hv⟩
    unfold withPort
    have : ¬ (0 ≤ v ∧ v ≤ 65535) := by omega
    simp [this]

namespace NetlocLemmas

/-- `with_port` on a `make_netloc`-written URL rewrites the netloc with the new port -/
theorem withPort_std (e : Env) (qf : Str → Str) (user pw : Option Str) (h : Str) (port0 : Option Nat)
    (scheme path query fragment : Str) (np : Option Int)
    (hu : UserOK user) (hh : HostOK h) (hp0 : ∀ p, port0 = some p → p ≤ 65535)
    (hnp : ∀ p, np = some p → 0 ≤ p ∧ p ≤ 65535) :
    withPort e (fromParts scheme (makeNetloc qf user pw (some (bracket h)) port0 false) path query fragment) np 0 =
      .ok (fromParts scheme (makeNetloc (q e Gen.QUOTER) user pw (some (bracket h)) (np.map Int.toNat) false)
            path query fragment) := by
  have hne : (makeNetloc qf user pw (some (bracket h)) port0 false).isEmpty = false := by
    have := makeNetloc_ne_nil qf user pw hh.1 port0
    cases hm : makeNetloc qf user pw (some (bracket h)) port0 false with
    | nil => exact absurd hm this
    | cons _ _ => rfl
  have hU := rawUser_std e qf user pw h port0 scheme path query fragment hu hh hp0
  have hP := rawPassword_std e qf user pw h port0 scheme path query fragment hu hh hp0
  have hH := hostSubcomponent_std e qf user pw h port0 scheme path query fragment hu hh hp0
  cases np with
  | none =>
    unfold withPort
    rw [hH, hU, hP]
    simp [fromParts, hne, bind, Except.bind, pure, Except.pure]
  | some p =>
    have := hnp p rfl
    unfold withPort
    rw [hH, hU, hP]
    simp [fromParts, hne, bind, Except.bind, pure, Except.pure, this]

end NetlocLemmas

theorem C17_with_port_sets (e : Env) (qf : Str → Str) (user pw : Option Str) (h : Str) (port0 : Option Nat)
    (scheme path query fragment : Str) (p : Int)
    (hu : UserOK user) (hh : HostOK h) (hp0 : ∀ p, port0 = some p → p ≤ 65535)
    (hp : 0 ≤ p ∧ p ≤ 65535) :
    let u := fromParts scheme (makeNetloc qf user pw (some (bracket h)) port0 false) path query fragment
    ∃ v, withPort e u (some p) 0 = .ok v ∧ explicitPort e v = .ok (some p.toNat) ∧
         rawUser e v = .ok user ∧ rawPassword e v = .ok pw ∧ rawHost e v = .ok (some h) ∧
         v.scheme = u.scheme ∧ v.path = u.path ∧ v.query = u.query ∧ v.fragment = u.fragment := by
  intro u
  have hpn : ∀ k, (some p).map Int.toNat = some k → k ≤ 65535 := by
    intro k hk; simp at hk; omega
  refine ⟨_, withPort_std e qf user pw h port0 scheme path query fragment (some p) hu hh hp0
    (by intro p' hp'; cases hp'; exact hp), ?_, ?_, ?_, ?_, rfl, rfl, rfl, rfl⟩
  · exact explicitPort_std e _ user pw h _ scheme path query fragment hu hh hpn
  · exact rawUser_std e _ user pw h _ scheme path query fragment hu hh hpn
  · exact rawPassword_std e _ user pw h _ scheme path query fragment hu hh hpn
  · exact rawHost_std e _ user pw h _ scheme path query fragment hu hh hpn

/-- `with_port(None)` clears the explicit port and nothing else -/
theorem C17_with_port_clears (e : Env) (qf : Str → Str) (user pw : Option Str) (h : Str) (port0 : Option Nat)
    (scheme path query fragment : Str)
    (hu : UserOK user) (hh : HostOK h) (hp0 : ∀ p, port0 = some p → p ≤ 65535) :
    let u := fromParts scheme (makeNetloc qf user pw (some (bracket h)) port0 false) path query fragment
    ∃ v, withPort e u none 0 = .ok v ∧ explicitPort e v = .ok none ∧
         rawUser e v = .ok user ∧ rawPassword e v = .ok pw ∧ rawHost e v = .ok (some h) ∧
         v.scheme = u.scheme ∧ v.path = u.path ∧ v.query = u.query ∧ v.fragment = u.fragment := by
  intro u
  have hpn : ∀ k, (none : Option Int).map Int.toNat = some k → k ≤ 65535 := by
    intro k hk; cases hk
  refine ⟨_, withPort_std e qf user pw h port0 scheme path query fragment none hu hh hp0
    (by intro p' hp'; cases hp'), ?_, ?_, ?_, ?_, rfl, rfl, rfl, rfl⟩
  · exact explicitPort_std e _ user pw h _ scheme path query fragment hu hh hpn
  · exact rawUser_std e _ user pw h _ scheme path query fragment hu hh hpn
  · exact rawPassword_std e _ user pw h _ scheme path query fragment hu hh hpn
  · exact rawHost_std e _ user pw h _ scheme path query fragment hu hh hpn

namespace NetlocLemmas

/-- the guarded `rstrip(".")` of `host_port_subcomponent` is just `rstrip(".")` -/
theorem rstrip_guard (h : Str) : (if h.getLast? = some 46 then rstripC 46 h else h) = rstripC 46 h := by
  split
  · rfl
  · rename_i hl
    unfold rstripC
    rw [← List.head?_reverse] at hl
    cases hr : h.reverse with
    | nil => simp [lstripSet]; simpa using hr
    | cons x xs =>
      rw [hr] at hl
      have hx : x ≠ 46 := by simpa using hl
      have : lstripSet [46] (x :: xs) = x :: xs := by simp [lstripSet, mem, hx]
      rw [this, ← hr, List.reverse_reverse]

end NetlocLemmas

/-- `host_port_subcomponent` omits an absent or default port; the host has its trailing dots stripped -/
theorem C17_host_port_omits_default (e : Env) (qf : Str → Str) (user pw : Option Str) (h : Str) (port : Option Nat)
    (scheme path query fragment : Str)
    (hu : UserOK user) (hh : HostOK h) (hp : ∀ p, port = some p → p ≤ 65535) :
    hostPortSubcomponent e
        (fromParts scheme (makeNetloc qf user pw (some (bracket h)) port false) path query fragment) =
      .ok (some (match port with
        | none => bracket (rstripC 46 h)
        | some p =>
          if some p = defaultPort scheme then bracket (rstripC 46 h)
          else bracket (rstripC 46 h) ++ [58] ++ natToStr p)) := by
  unfold hostPortSubcomponent
  rw [rawHost_std e qf user pw h port scheme path query fragment hu hh hp,
      explicitPort_std e qf user pw h port scheme path query fragment hu hh hp]
  simp only [bind, Except.bind, rstrip_guard]
  cases port with
  | none => rfl
  | some p =>
    simp only [fromParts]
    by_cases hd : some p = defaultPort scheme
    · simp [hd, bracket, pure, Except.pure]
    · simp [hd, bracket, pure, Except.pure]

/-- `str()` renders the stored netloc, except that an explicit port equal to the scheme's
    default is dropped (the authority is re-written by `make_netloc` without a port) -/
theorem C17_str_omits_default_port (e : Env) (qf : Str → Str) (user pw : Option Str) (h : Str) (port0 : Option Nat)
    (scheme path query fragment : Str)
    (hu : UserOK user) (hh : HostOK h) (hp0 : ∀ p, port0 = some p → p ≤ 65535) :
    let stored := makeNetloc qf user pw (some (bracket h)) port0 false
    let u := fromParts scheme stored path query fragment
    let shown := match port0 with
      | some p => if some p = defaultPort scheme then makeNetloc qf user pw (some (bracket h)) none false else stored
      | none => stored
    let path' := if path.isEmpty && (!query.isEmpty || !fragment.isEmpty) then [47] else path
    str e u = .ok (unsplitResult scheme shown path' query fragment) := by
  intro stored u shown path'
  have hne : stored.isEmpty = false := by
    have := makeNetloc_ne_nil qf user pw hh.1 port0
    cases hm : stored with
    | nil => exact absurd hm this
    | cons _ _ => rfl
  unfold str
  rw [explicitPort_std e qf user pw h port0 scheme path query fragment hu hh hp0]
  cases port0 with
  | none =>
    simp [u, fromParts, hne, bind, Except.bind, pure, Except.pure, shown, path']
  | some p =>
    by_cases hd : some p = defaultPort scheme
    · rw [hostSubcomponent_std e qf user pw h (some p) scheme path query fragment hu hh hp0,
          rawUser_std e qf user pw h (some p) scheme path query fragment hu hh hp0,
          rawPassword_std e qf user pw h (some p) scheme path query fragment hu hh hp0]
      simp [u, fromParts, hne, bind, Except.bind, pure, Except.pure, shown, path', hd,
        makeNetloc_qf (q e Gen.QUOTER) qf]
    · simp [u, fromParts, hne, bind, Except.bind, pure, Except.pure, shown, path', hd]

/-! ### non-vacuity checks -/

section checks
private def e0 : Env := { b := .py, o := Oracles.empty }
private def u0 : Url :=
  fromParts "http".toStr (makeNetloc id (some "us@er".toStr) (some "p:w".toStr) (some (bracket "::1".toStr)) (some 80) false)
    "/p".toStr "k=v".toStr "f".toStr

example : UserOK (some "us@er".toStr) ∧ HostOK "::1".toStr ∧ (∀ p, some 80 = some p → p ≤ 65535) :=
  ⟨by decide, by decide, by intro p hp; cases hp; decide⟩
example : u0.netloc = "us@er:p:w@[::1]:80".toStr := by decide
example : explicitPort e0 u0 = .ok (some 80) ∧ port e0 u0 = .ok (some 80) ∧ isDefaultPort e0 u0 = .ok true :=
  ⟨rfl, rfl, rfl⟩
example : str e0 u0 = .ok "http://us@er:p:w@[::1]/p?k=v#f".toStr := rfl
example : hostPortSubcomponent e0 u0 = .ok (some "[::1]".toStr) := rfl
example : (withPort e0 u0 (some 0) 0).map (·.netloc) = .ok "us@er:p:w@[::1]:0".toStr := rfl
example : (withPort e0 u0 none 0).map (·.netloc) = .ok "us@er:p:w@[::1]".toStr := rfl
example : (withPort e0 u0 (some 8080) 0).bind (str e0) = .ok "http://us@er:p:w@[::1]:8080/p?k=v#f".toStr := rfl
example : withPort e0 u0 (some 65536) 0 = .error .valueError ∧ withPort e0 u0 (some (-1)) 0 = .error .valueError ∧
    withPort e0 u0 (some 1) 1 = .error .typeError := ⟨rfl, rfl, rfl⟩
example : hostPortSubcomponent e0 (fromParts "http".toStr "example.com.:8080".toStr [] [] []) =
    .ok (some "example.com:8080".toStr) := rfl
end checks

end Yarl
