/-
  C06Decode.lean — closes C06 GAPS item 2: the decoded accessors equal an INDEPENDENT, textbook specification of
  UTF-8 percent-decoding, `Rfc.pctUtf8Decode keep plusIsSpace` (first section, ≈ 40 lines, no reference to the
  unquoter state machine, to `decodeBuf`, `DecodeSpec`, `takeEscape`, `restoreCh` or the quoters; it uses the model's
  UTF-8 ENCODER `utf8` only).

    * scan left to right; a maximal run of well-formed escapes `%XX` (`escapeRun`) is turned into bytes;
    * the bytes are decoded by maximal well-formed subsequences (`decodeEscapes` / `utf8Head`: the sequence announced
      by the lead byte must be exactly the UTF-8 encoding of the code point it carries — `utf8Head_iff`: it is THE
      code point whose encoding is a prefix of the bytes); a decoded code point `c` is emitted literally unless
      `keep c`, in which case the library RE-QUOTES it — the output is its upper-case percent-encoding `pctEncode c`,
      whatever hex case the input used (`%2f` → `%2F`);
    * an escape that starts no well-formed sequence is copied VERBATIM, as written; a `%` not followed by two hex
      digits is literal; '+' becomes ' ' iff `plusIsSpace`.

  Results (all for both backends, every input):
    0. `C06_utf8Head_textbook`, `C06_spec_hex_agrees`
    1. `C06_unquoter_keep_sets`, `C06_unquoter_keep_examples`, `C06_decodeSpec_is_pctUtf8`, `C06_unquoter_is_pctUtf8`, `C06_unquoter_is_pctUtf8_of_table`
    2. `C06_*_is_decoding`, `C06_accessors_are_pctUtf8_decodings`; `C06_qs_decodes_utf8`, `C06_path_safe_decodes_utf8`
    3. `C06_pct_append`, `C06_pct_malformed_verbatim`, `C06_pct_invalid_verbatim`, `C06_pct_truncated_verbatim`,
       `C06_pct_surrogate_verbatim`, `C06_pct_valid_sequence`, `C06_pct_malformed_examples`
  No disagreement between the independent specification and the state machine exists (item 1 is a theorem for every
  input); the specification was also run against /repo's `_quoting_py._Unquoter` and `_quoting_c._Unquoter` on 4714
  strings x 4 configurations: no mismatch.
-/
import YarlProofs.Lemmas.DecMore
import YarlProofs.C06
import YarlProofs.Lemmas.QsMore
set_option linter.unusedVariables false
namespace Yarl

/-! ## THE INDEPENDENT SPECIFICATION -/

namespace Rfc

/-- value of a hexadecimal digit (either case) -/
def hexValue (c : Nat) : Option Nat :=
  if 48 ≤ c ∧ c ≤ 57 then some (c - 48) else if 65 ≤ c ∧ c ≤ 70 then some (c - 55)
  else if 97 ≤ c ∧ c ≤ 102 then some (c - 87) else none
/-- upper-case hexadecimal digit -/
def hexDigit (v : Nat) : Nat := if v < 10 then 48 + v else 55 + v
/-- percent-encoding of a code point: `%XX` (upper case) for every byte of its UTF-8 encoding -/
def pctEncode (c : Nat) : Str := (utf8 c).flatMap fun b => [37, hexDigit (b / 16), hexDigit (b % 16)]
/-- the maximal run of well-formed escapes `%XX` at the start of a string — each with its byte and its three
    characters AS WRITTEN — and the rest of the string -/
def escapeRun : Str → List (Nat × Str) × Str
  | 37 :: d1 :: d2 :: r =>
    match hexValue d1, hexValue d2 with
    | some a, some b => ((16 * a + b, [37, d1, d2]) :: (escapeRun r).1, (escapeRun r).2)
    | _, _ => ([], 37 :: d1 :: d2 :: r)
  | s => ([], s)
/-- length of a UTF-8 sequence as announced by its lead byte -/
def seqLen (b0 : Nat) : Nat := if b0 < 0x80 then 1 else if b0 < 0xE0 then 2 else if b0 < 0xF0 then 3 else 4
/-- the payload bits of a sequence: 7 / 5 / 4 / 3 bits of the lead byte, 6 bits of every further byte -/
def payload : List Nat → Nat
  | [b0] => b0
  | [b0, b1] => b0 % 32 * 64 + b1 % 64
  | [b0, b1, b2] => b0 % 16 * 4096 + b1 % 64 * 64 + b2 % 64
  | [b0, b1, b2, b3] => b0 % 8 * 262144 + b1 % 64 * 4096 + b2 % 64 * 64 + b3 % 64
  | _ => 0
/-- the code point at the head of a byte string and the number of bytes it takes: the bytes announced by the lead byte
    must be EXACTLY the UTF-8 encoding of the code point they carry (this rejects stray continuation bytes, truncated
    and overlong sequences, surrogates and values above U+10FFFF: `utf8` encodes none of them to these bytes) -/
def utf8Head : List Nat → Option (Nat × Nat)
  | [] => none
  | b0 :: bs => let w := (b0 :: bs).take (seqLen b0)
    if w = utf8 (payload w) then some (payload w, w.length) else none
/-- a run of escapes decoded as UTF-8 by maximal well-formed subsequences: a well-formed sequence becomes its code
    point (re-encoded, upper case, when `keep` says it must stay encoded); an escape that starts no well-formed sequence
    is copied as written -/
def decodeEscapes (keep : Nat → Bool) : List (Nat × Str) → Str
  | [] => []
  | e :: es =>
    match utf8Head (e.1 :: es.map (·.1)) with
    | some (c, k) => (if keep c then pctEncode c else [c]) ++ decodeEscapes keep (es.drop (k - 1))
    | none => e.2 ++ decodeEscapes keep es
termination_by l => l.length
decreasing_by all_goals simp_wf; all_goals omega
theorem escapeRun_length : ∀ s : Str, (escapeRun s).2.length + 3 * (escapeRun s).1.length = s.length := by
  intro s
  fun_induction escapeRun s <;> simp_all <;> omega
/-- UTF-8 percent-decoding: maximal runs of well-formed escapes are decoded by `decodeEscapes`; every other character —
    including a `%` not followed by two hex digits — is literal, except that '+' is a space iff `plusIsSpace` -/
def pctUtf8Decode (keep : Nat → Bool) (plusIsSpace : Bool) : Str → Str
  | [] => []
  | c :: r =>
    match h : escapeRun (c :: r) with
    | ([], _) => (if c = 43 ∧ plusIsSpace = true then 32 else c) :: pctUtf8Decode keep plusIsSpace r
    | (e :: es, r') => decodeEscapes keep (e :: es) ++ pctUtf8Decode keep plusIsSpace r'
termination_by s => s.length
decreasing_by
  all_goals simp_wf
  all_goals (have := escapeRun_length (c :: r); rw [h] at this; simp at this; omega)
end Rfc

/-! ### not part of the specification: vocabulary for the theorems below -/

namespace Rfc
/-- the bytes of all well-formed escapes `%XX` of a string, in order -/
def escapeBytes : Str → List Nat
  | [] => []
  | c :: r =>
    match h : escapeRun (c :: r) with
    | ([], _) => escapeBytes r
    | (e :: es, r') => (e :: es).map (·.1) ++ escapeBytes r'
termination_by s => s.length
decreasing_by
  all_goals simp_wf
  all_goals (have := escapeRun_length (c :: r); rw [h] at this; simp at this; omega)
end Rfc

/-! ## the `keep` set and the '+' flag of an unquoter configuration, READ OFF ITS TABLE -/

/-- the characters an `_Unquoter(ignore=…, unsafe=…, qs=…)` keeps encoded: a character decoded out of escapes is sent
    back through `_Quoter(qs=True)` when `qs` and it is one of "+=&;", through `_Quoter()` when it is in `unsafe` or
    `ignore`; it stays encoded iff that quoter does not keep it literal -/
def UArgs.keeps (a : UArgs) (b : Backend) (c : Nat) : Bool :=
  if a.qs = true ∧ mem c "+=&;".toStr = true then !(defaultQsQuoterArgs.tab b).safe c
  else (mem c a.unsafeS || mem c a.ignoreS) && !(defaultQuoterArgs.tab b).safe c

/-- a literal '+' is a space: `qs` and '+' not `unsafe` -/
def UArgs.plusIsSpace (a : UArgs) : Bool := a.qs && !mem 43 a.unsafeS

/-- no character stays encoded -/
abbrev keepNone : Nat → Bool := fun _ => false
/-- '/' and '%' stay encoded -/
abbrev keepSlashPercent : Nat → Bool := fun c => c == 0x2F || c == 0x25
/-- '+' '=' '&' ';' stay encoded -/
abbrev keepQsDelims : Nat → Bool := fun c => c == 0x2B || c == 0x3D || c == 0x26 || c == 0x3B

namespace DecMore
open Rfc DecLemmas Readback UnquoteEquiv SpecLemmas GenTabs



/-! ### hex digits: the specification's own tables agree with the library's -/

theorem hexValue_eq (c : Nat) : hexValue c = fromHex c := by
  unfold hexValue fromHex
  by_cases h1 : 48 ≤ c ∧ c ≤ 57
  · simp only [h1, and_self, if_true]
  by_cases h2 : 65 ≤ c ∧ c ≤ 70
  · simp only [h1, h2, and_self, if_true, if_false, Option.some.injEq]; omega
  by_cases h3 : 97 ≤ c ∧ c ≤ 102
  · simp only [h1, h2, h3, and_self, if_true, if_false, Option.some.injEq]; omega
  · simp only [h1, h2, h3, if_false]

theorem hexDigit_eq (v : Nat) : hexDigit v = toHex v := by
  unfold hexDigit toHex
  split <;> omega

theorem pctEncode_eq (c : Nat) : pctEncode c = writeUtf8 c := by
  unfold pctEncode writeUtf8 pct
  simp only [hexDigit_eq]

theorem pctEncode_ascii (c : Nat) (hc : c < 128) : pctEncode c = pct c := by
  rw [pctEncode_eq, writeUtf8, utf8_1 c hc]; simp



/-! ### `utf8Head`: THE code point whose encoding starts the byte string -/

theorem utf8Head_some {bs : List Nat} {c k : Nat} (h : utf8Head bs = some (c, k)) :
    c ≤ 0x10FFFF ∧ isSurrogate c = false ∧ k = (utf8 c).length ∧ 0 < k ∧ bs.take k = utf8 c := by
  match bs, h with
  | [], h => simp [utf8Head] at h
  | b0 :: t, h =>
    simp only [utf8Head] at h
    split at h
    · rename_i hw
      simp only [Option.some.injEq, Prod.mk.injEq] at h
      obtain ⟨hc, hk⟩ := h
      rw [hc] at hw
      have hpos : 0 < seqLen b0 := by unfold seqLen; split <;> (try split) <;> (try split) <;> omega
      have hne : List.take (seqLen b0) (b0 :: t) ≠ [] := by
        cases hsl : seqLen b0 with
        | zero => omega
        | succ n => simp
      have hsc := utf8_scalar_of_ne_nil c (by rw [← hw]; exact hne)
      refine ⟨hsc.1, hsc.2, ?_, ?_, ?_⟩
      · rw [← hk, hw]
      · rw [← hk]; exact List.length_pos_iff.mpr hne
      · rw [← hk, ← hw, List.length_take]
        by_cases hle : seqLen b0 ≤ (b0 :: t).length
        · rw [Nat.min_eq_left hle]
        · rw [Nat.min_eq_right (by omega), List.take_of_length_le (Nat.le_refl _),
            List.take_of_length_le (by omega)]
    · cases h

theorem utf8Head_prefix (c : Nat) (hc : c ≤ 0x10FFFF) (hs : isSurrogate c = false) (rest : List Nat) :
    utf8Head (utf8 c ++ rest) = some (c, (utf8 c).length) := by
  by_cases h1 : c < 0x80
  · rw [utf8_1 c h1]
    simp only [List.cons_append, List.nil_append, utf8Head, seqLen, h1, if_true, List.take_succ_cons,
      List.take_zero, payload, utf8_1 c h1, List.length_cons, List.length_nil]
  by_cases h2 : c < 0x800
  · rw [utf8_2 c (by omega) h2]
    have a1 : ¬ (0xC0 + c / 64 < 0x80) := by omega
    have a2 : 0xC0 + c / 64 < 0xE0 := by omega
    have hp : (0xC0 + c / 64) % 32 * 64 + (0x80 + c % 64) % 64 = c := by omega
    simp only [List.cons_append, List.nil_append, utf8Head, seqLen, a1, a2, if_true, if_false,
      List.take_succ_cons, List.take_zero, payload, hp, utf8_2 c (by omega) h2, List.length_cons,
      List.length_nil]
  by_cases h3 : c < 0x10000
  · rw [utf8_3 c (by omega) h3 hs]
    have a1 : ¬ (0xE0 + c / 4096 < 0x80) := by omega
    have a2 : ¬ (0xE0 + c / 4096 < 0xE0) := by omega
    have a3 : 0xE0 + c / 4096 < 0xF0 := by omega
    have hp : (0xE0 + c / 4096) % 16 * 4096 + (0x80 + c / 64 % 64) % 64 * 64 + (0x80 + c % 64) % 64 = c := by
      omega
    simp only [List.cons_append, List.nil_append, utf8Head, seqLen, a1, a2, a3, if_true, if_false,
      List.take_succ_cons, List.take_zero, payload, hp, utf8_3 c (by omega) h3 hs, List.length_cons,
      List.length_nil]
  · rw [utf8_4 c (by omega) hc]
    have a1 : ¬ (0xF0 + c / 262144 < 0x80) := by omega
    have a2 : ¬ (0xF0 + c / 262144 < 0xE0) := by omega
    have a3 : ¬ (0xF0 + c / 262144 < 0xF0) := by omega
    have hp : (0xF0 + c / 262144) % 8 * 262144 + (0x80 + c / 4096 % 64) % 64 * 4096 +
        (0x80 + c / 64 % 64) % 64 * 64 + (0x80 + c % 64) % 64 = c := by omega
    simp only [List.cons_append, List.nil_append, utf8Head, seqLen, a1, a2, a3, if_true, if_false,
      List.take_succ_cons, List.take_zero, payload, hp, utf8_4 c (by omega) hc, List.length_cons,
      List.length_nil]

/-- `utf8Head` is what the textbook says: the (unique) code point whose UTF-8 encoding is a prefix of the bytes -/
theorem utf8Head_iff (bs : List Nat) (c k : Nat) :
    utf8Head bs = some (c, k) ↔
      c ≤ 0x10FFFF ∧ isSurrogate c = false ∧ k = (utf8 c).length ∧ ∃ rest, bs = utf8 c ++ rest := by
  constructor
  · intro h
    obtain ⟨h1, h2, h3, h4, h5⟩ := utf8Head_some h
    exact ⟨h1, h2, h3, bs.drop k, by rw [← h5, List.take_append_drop]⟩
  · rintro ⟨h1, h2, h3, rest, rfl⟩
    rw [h3]; exact utf8Head_prefix c h1 h2 rest

theorem utf8Head_none_iff (bs : List Nat) :
    utf8Head bs = none ↔ ∀ c, c ≤ 0x10FFFF → isSurrogate c = false → ∀ rest, bs ≠ utf8 c ++ rest := by
  constructor
  · intro h c hc hs rest hb
    rw [hb, utf8Head_prefix c hc hs rest] at h; cases h
  · intro h
    cases hh : utf8Head bs with
    | none => rfl
    | some p =>
      obtain ⟨c, k⟩ := p
      obtain ⟨h1, h2, _, rest, h4⟩ := (utf8Head_iff bs c k).mp hh
      exact absurd h4 (h c h1 h2 rest)



/-! ### `decodeEscapes`, one step -/

theorem decodeEscapes_nil (keep : Nat → Bool) : decodeEscapes keep [] = [] := by
  rw [decodeEscapes]

theorem decodeEscapes_some (keep : Nat → Bool) (e : Nat × Str) (es : List (Nat × Str)) (c k : Nat)
    (h : utf8Head (runBytes (e :: es)) = some (c, k)) :
    decodeEscapes keep (e :: es) =
      (if keep c = true then pctEncode c else [c]) ++ decodeEscapes keep ((e :: es).drop k) := by
  have hk := (utf8Head_some h).2.2.2.1
  rw [decodeEscapes]
  simp only [runBytes, List.map_cons] at h
  rw [h]
  simp only
  obtain ⟨k', rfl⟩ : ∃ k', k = k' + 1 := ⟨k - 1, by omega⟩
  simp

theorem decodeEscapes_none (keep : Nat → Bool) (e : Nat × Str) (es : List (Nat × Str))
    (h : utf8Head (runBytes (e :: es)) = none) :
    decodeEscapes keep (e :: es) = e.2 ++ decodeEscapes keep es := by
  rw [decodeEscapes]
  simp only [runBytes, List.map_cons] at h
  rw [h]

theorem utf8Head_badLead (b : Nat) (hb : BadLead b) (rest : List Nat) : utf8Head (b :: rest) = none := by
  rw [utf8Head_none_iff]
  intro c hc hs r h
  obtain ⟨b0, r0, e, hn⟩ := utf8_lead c hc hs
  rw [e] at h
  simp only [List.cons_append, List.cons.injEq] at h
  rw [← h.1] at hn
  exact hn hb

/-- escapes of continuation bytes at the start of a run are copied as written -/
theorem decodeEscapes_cont (keep : Nat → Bool) (qs : List (Nat × Str)) (hq : ∀ e ∈ qs, isCont e.1 = true)
    (tl : List (Nat × Str)) : decodeEscapes keep (qs ++ tl) = runText qs ++ decodeEscapes keep tl := by
  induction qs with
  | nil => rfl
  | cons q qs ih =>
    rw [List.cons_append, decodeEscapes_none keep q (qs ++ tl)
      (utf8Head_badLead _ (badLead_of_cont (hq q (by simp))) _),
      ih (fun e he => hq e (List.mem_cons_of_mem _ he))]
    simp [runText]

/-! ### pending escapes (every non-empty prefix an incomplete sequence) and `utf8Head` -/

/-- pending escapes that stay pending to the end of the run start no well-formed sequence -/
theorem utf8Head_pending {ps : List (Nat × Str)} (hp : Pending ps) : utf8Head (runBytes ps) = none := by
  cases hh : utf8Head (runBytes ps) with
  | none => rfl
  | some q =>
    obtain ⟨c, k⟩ := q
    obtain ⟨hc, hs, hk, h0, ht⟩ := utf8Head_some hh
    have hle : k ≤ ps.length := by
      have := congrArg List.length ht
      rw [List.length_take, ← hk] at this
      simp only [List.length_map] at this
      omega
    have := pending_take_incomplete hp [] k h0 hle
    rw [List.append_nil, ht, decodeBuf_utf8 c hc hs] at this
    cases this

/-- … nor do pending escapes that the next escape cannot continue -/
theorem utf8Head_pending_invalid {ps : List (Nat × Str)} (hp : Pending ps) (e : Nat × Str)
    (tl : List (Nat × Str)) (h : decodeBuf (runBytes ps ++ [e.1]) = .invalid) :
    utf8Head (runBytes (ps ++ e :: tl)) = none := by
  cases hh : utf8Head (runBytes (ps ++ e :: tl)) with
  | none => rfl
  | some q =>
    obtain ⟨c, k⟩ := q
    obtain ⟨hc, hs, hk, h0, ht⟩ := utf8Head_some hh
    exfalso
    by_cases hle : k ≤ ps.length
    · have := pending_take_incomplete hp (e :: tl) k h0 hle
      rw [ht, decodeBuf_utf8 c hc hs] at this
      cases this
    · have h1 : (runBytes (ps ++ e :: tl)).take (ps.length + 1) = runBytes ps ++ [e.1] :=
        (firstDecided_snoc hp e tl (by rw [h]; simp)).2
      have h2 : (utf8 c).take (ps.length + 1) = runBytes ps ++ [e.1] := by
        rw [← ht, List.take_take, Nat.min_eq_left (by omega), h1]
      by_cases heq : k = ps.length + 1
      · rw [heq] at hk
        rw [hk, List.take_of_length_le (Nat.le_refl _)] at h2
        rw [← h2, decodeBuf_utf8 c hc hs] at h
        cases h
      · have := decodeBuf_utf8_prefix c hc hs (ps.length + 1) (by omega) (by omega)
        rw [h2, h] at this
        cases this

/-- the next escape completes the pending ones to the encoding of `c` -/
theorem utf8Head_pending_char (ps : List (Nat × Str)) (e : Nat × Str) (tl : List (Nat × Str)) (c : Nat)
    (h : decodeBuf (runBytes ps ++ [e.1]) = .char c) :
    utf8Head (runBytes (ps ++ e :: tl)) = some (c, ps.length + 1) ∧ c ≤ 0x10FFFF ∧ isSurrogate c = false := by
  obtain ⟨hb, hc, hs⟩ := decodeBuf_char_utf8 _ c h
  refine ⟨?_, hc, hs⟩
  have : runBytes (ps ++ e :: tl) = utf8 c ++ runBytes tl := by
    rw [← hb]; simp [runBytes]
  rw [this, utf8Head_prefix c hc hs]
  congr 2
  rw [← hb]; simp

/-- pending escapes followed by something they do not combine with are copied as written -/
theorem decodeEscapes_pending (keep : Nat → Bool) {ps : List (Nat × Str)} (hp : Pending ps)
    (tl : List (Nat × Str)) (h : ps ≠ [] → utf8Head (runBytes (ps ++ tl)) = none) :
    decodeEscapes keep (ps ++ tl) = runText ps ++ decodeEscapes keep tl := by
  match ps, hp, h with
  | [], _, _ => rfl
  | p :: ps', hp, h =>
    rw [List.cons_append, decodeEscapes_none keep p (ps' ++ tl) (h (by simp)),
      decodeEscapes_cont keep ps' (pending_tail_cont p ps' hp)]
    simp [runText]

/-! ### the run decoder of the project specification IS the textbook one -/

theorem decodeRun_eq_decodeEscapes (b : Backend) (u : UTab) (keep : Nat → Bool)
    (hemit : ∀ c, c ≤ 0x10FFFF → isSurrogate c = false →
      uqEmit b u c = if keep c = true then pctEncode c else [c]) :
    ∀ n (es : List (Nat × Str)), es.length ≤ n → decodeRun b u es = decodeEscapes keep es := by
  intro n
  induction n with
  | zero =>
    intro es hl
    have : es = [] := List.eq_nil_of_length_eq_zero (by omega)
    subst this
    rw [decodeRun_nil, decodeEscapes_nil]
  | succ n ih =>
    intro es hl
    rcases split_pending es with hp | ⟨ps, e, tl, rfl, hp, hd⟩
    · rw [decodeRun_pending b u hp]
      have := decodeEscapes_pending keep hp [] (fun _ => by rw [List.append_nil]; exact utf8Head_pending hp)
      rw [List.append_nil, decodeEscapes_nil, List.append_nil] at this
      exact this.symm
    · simp only [List.length_append, List.length_cons] at hl
      cases hdb : decodeBuf (runBytes ps ++ [e.1]) with
      | incomplete => exact absurd hdb hd
      | char c =>
        obtain ⟨hh, hc, hs⟩ := utf8Head_pending_char ps e tl c hdb
        rw [decodeRun_char b u hp e tl c hdb, hemit c hc hs, ih tl (by omega)]
        match ps, hh with
        | [], hh =>
          rw [List.nil_append, decodeEscapes_some keep e tl c _ hh]
          simp
        | p :: ps', hh =>
          rw [List.cons_append, decodeEscapes_some keep p (ps' ++ e :: tl) c _ hh]
          simp
      | invalid =>
        by_cases hne : ps = []
        · subst hne
          have hh := utf8Head_pending_invalid pending_nil e tl hdb
          rw [List.nil_append] at hh ⊢
          rw [decodeRun_invalid_nil b u e tl (by simpa using hdb), decodeEscapes_none keep e tl hh,
            ih tl (by omega)]
        · have hh := utf8Head_pending_invalid hp e tl hdb
          have hpos : 0 < ps.length := List.length_pos_iff.mpr hne
          rw [decodeRun_invalid b u hp hne e tl hdb, decodeEscapes_pending keep hp (e :: tl) (fun _ => hh),
            ih (e :: tl) (by simp only [List.length_cons]; omega)]



/-! ### `escapeRun`: the maximal run of well-formed escapes -/

theorem restoreCh_hexValue {d1 d2 a b : Nat} (ha : hexValue d1 = some a) (hb : hexValue d2 = some b) :
    restoreCh d1 d2 = some (16 * a + b) := by
  rw [hexValue_eq] at ha hb
  simp only [restoreCh, ha, hb, Nat.mul_comm]

theorem restoreCh_none_of_hexValue {d1 d2 : Nat}
    (h : ∀ a b, hexValue d1 = some a → hexValue d2 = some b → False) : restoreCh d1 d2 = none := by
  simp only [hexValue_eq] at h
  unfold restoreCh
  cases h1 : fromHex d1 <;> cases h2 : fromHex d2 <;> simp
  exact h _ _ h1 h2

theorem escapeRun_spec (s : Str) :
    s = runText (escapeRun s).1 ++ (escapeRun s).2 ∧ (∀ e ∈ (escapeRun s).1, EscOK e) ∧
    ¬ StartsEscape (escapeRun s).2 ∧ ((escapeRun s).1 = [] → (escapeRun s).2 = s) := by
  fun_induction escapeRun s with
  | case1 d1 d2 r a b hb ha ih =>
    obtain ⟨h1, h2, h3, _⟩ := ih
    refine ⟨?_, ?_, h3, fun h => by simp at h⟩
    · simp only [runText, List.map_cons, List.flatten_cons, List.cons_append, List.nil_append]
      congr 3
    · intro e he
      simp only [List.mem_cons] at he
      rcases he with rfl | he
      · exact ⟨d1, d2, rfl, restoreCh_hexValue ha hb⟩
      · exact h2 e he
  | case2 d1 d2 r hno =>
    refine ⟨rfl, fun e he => by simp at he, ?_, fun _ => rfl⟩
    apply not_startsEscape_of_restoreCh_none
    apply restoreCh_none_of_hexValue
    intro a b ha hb
    exact hno a b ha hb
  | case3 s hno =>
    refine ⟨rfl, fun e he => by simp at he, ?_, fun _ => rfl⟩
    rintro ⟨d1, d2, r', v, rfl, hv⟩
    obtain ⟨a, b, ha, hb⟩ : ∃ a b, hexValue d1 = some a ∧ hexValue d2 = some b := by
      simp only [hexValue_eq]
      unfold restoreCh at hv
      cases h1 : fromHex d1 <;> cases h2 : fromHex d2 <;> simp [h1, h2] at hv
      exact ⟨_, _, rfl, rfl⟩
    exact hno d1 d2 r' rfl


/-! ### `pctUtf8Decode`, one step -/

theorem pctUtf8Decode_nil (keep : Nat → Bool) (plus : Bool) : pctUtf8Decode keep plus [] = [] := by
  rw [pctUtf8Decode]

theorem pctUtf8Decode_plain (keep : Nat → Bool) (plus : Bool) (c : Nat) (r : Str)
    (h : (escapeRun (c :: r)).1 = []) :
    pctUtf8Decode keep plus (c :: r) =
      (if c = 43 ∧ plus = true then 32 else c) :: pctUtf8Decode keep plus r := by
  rw [pctUtf8Decode]
  split
  · rfl
  · rename_i h'; rw [h'] at h; cases h

theorem pctUtf8Decode_run (keep : Nat → Bool) (plus : Bool) (s : Str) (h : (escapeRun s).1 ≠ []) :
    pctUtf8Decode keep plus s =
      decodeEscapes keep (escapeRun s).1 ++ pctUtf8Decode keep plus (escapeRun s).2 := by
  match s, h with
  | [], h => exact absurd rfl h
  | c :: r, h =>
    rw [pctUtf8Decode]
    split
    · rename_i h'; rw [h'] at h; exact absurd rfl h
    · rename_i h'; rw [h']

/-! ### the project specification IS the textbook one -/

theorem decodeSpec_eq (b : Backend) (u : UTab) (keep : Nat → Bool) (plus : Bool)
    (hplain : ∀ c, uqPlain u c = [if c = 43 ∧ plus = true then 32 else c])
    (hemit : ∀ c, c ≤ 0x10FFFF → isSurrogate c = false →
      uqEmit b u c = if keep c = true then pctEncode c else [c]) :
    ∀ n (s : Str), s.length ≤ n → DecodeSpec b u s = pctUtf8Decode keep plus s := by
  intro n
  induction n with
  | zero =>
    intro s hl
    have : s = [] := List.eq_nil_of_length_eq_zero (by omega)
    subst this
    rw [C06_spec_nil, pctUtf8Decode_nil]
  | succ n ih =>
    intro s hl
    match s, hl with
    | [], _ => rw [C06_spec_nil, pctUtf8Decode_nil]
    | c :: r, hl =>
      obtain ⟨h1, h2, h3, h4⟩ := escapeRun_spec (c :: r)
      by_cases he : (escapeRun (c :: r)).1 = []
      · have hns : ¬ StartsEscape (c :: r) := by rw [← h4 he]; exact h3
        rw [C06_spec_plain b u c r (Or.inr hns), hplain, pctUtf8Decode_plain keep plus c r he,
          ih r (by simp only [List.length_cons] at hl; omega)]
        rfl
      · have hlen := escapeRun_length (c :: r)
        have hpos : 0 < (escapeRun (c :: r)).1.length := List.length_pos_iff.mpr he
        rw [pctUtf8Decode_run keep plus (c :: r) he]
        conv => lhs; rw [h1]
        rw [C06_spec_run b u _ h2 _ h3, decodeRun_eq_decodeEscapes b u keep hemit _ _ (Nat.le_refl _),
          ih _ (by omega)]


theorem mem_lt_128 {c : Nat} {l : Str} (hl : ∀ x ∈ l, x < 128) (h : mem c l = true) : c < 128 :=
  hl c (mem_iff.mp h)

theorem uqEmit_keeps (ua : UArgs) (b : Backend) (hun : ∀ x ∈ ua.unsafeS, x < 128)
    (hig : ∀ x ∈ ua.ignoreS, x < 128) (c : Nat) :
    uqEmit b (ua.tab b) c = if ua.keeps b c = true then pctEncode c else [c] := by
  have hqs0 : (defaultQuoterArgs.tab b).qs = false := by cases b <;> rfl
  have hqs1 : (defaultQsQuoterArgs.tab b).qs = true := by cases b <;> rfl
  have hsp0 : (defaultQuoterArgs.tab b).qs = true → (defaultQuoterArgs.tab b).safe 32 = false :=
    fun _ => (default_space_unsafe b).1
  have hsp1 : (defaultQsQuoterArgs.tab b).qs = true → (defaultQsQuoterArgs.tab b).safe 32 = false :=
    fun _ => (default_space_unsafe b).2
  unfold uqEmit UArgs.keeps
  show (if ua.qs = true ∧ mem c "+=&;".toStr = true then quote b (defaultQsQuoterArgs.tab b) [c]
    else if mem c ua.unsafeS = true ∨ mem c ua.ignoreS = true then quote b (defaultQuoterArgs.tab b) [c]
    else [c]) = _
  by_cases h1 : ua.qs = true ∧ mem c "+=&;".toStr = true
  · have hc : c < 128 := mem_lt_128 (by decide) h1.2
    have h32 : c ≠ 32 := by
      rintro rfl; exact absurd h1.2 (by decide)
    simp only [h1, and_self, if_true]
    cases hs : (defaultQsQuoterArgs.tab b).safe c with
    | false =>
      simp only [Bool.not_false, if_true]
      rw [quote_single_esc b _ (default_tabs_wf b).2 hsp1 c hc hs (by simp [h32]), pctEncode_ascii c hc]
    | true =>
      simp only [Bool.not_true, Bool.false_eq_true, if_false]
      exact quote_single_lit b _ (default_tabs_wf b).2 hsp1 c hc hs (by simp [h32])
  · simp only [h1, if_false]
    by_cases h2 : mem c ua.unsafeS = true ∨ mem c ua.ignoreS = true
    · have hc : c < 128 := by
        rcases h2 with h | h
        · exact mem_lt_128 hun h
        · exact mem_lt_128 hig h
      have h2' : (mem c ua.unsafeS || mem c ua.ignoreS) = true := by simpa using h2
      simp only [h2, if_true, h2', Bool.true_and]
      cases hs : (defaultQuoterArgs.tab b).safe c with
      | false =>
        simp only [Bool.not_false, if_true]
        rw [quote_single_esc b _ (default_tabs_wf b).1 hsp0 c hc hs (by simp [hqs0]), pctEncode_ascii c hc]
      | true =>
        simp only [Bool.not_true, Bool.false_eq_true, if_false]
        exact quote_single_lit b _ (default_tabs_wf b).1 hsp0 c hc hs (by simp [hqs0])
    · have h2' : (mem c ua.unsafeS || mem c ua.ignoreS) = false := by
        simp only [not_or, Bool.not_eq_true] at h2
        simp [h2.1, h2.2]
      simp only [h2, if_false, h2', Bool.false_and, Bool.false_eq_true]

theorem uqPlain_plus (ua : UArgs) (b : Backend) (hun : ∀ x ∈ ua.unsafeS, x = 43) (c : Nat) :
    uqPlain (ua.tab b) c = [if c = 43 ∧ ua.plusIsSpace = true then 32 else c] := by
  unfold uqPlain UArgs.plusIsSpace
  show (if c = 43 then (if ua.qs = false ∨ mem 43 ua.unsafeS = true then [43] else [32])
    else if mem c ua.unsafeS = true then 37 :: hexUpper c else [c]) = _
  by_cases hc : c = 43
  · subst hc
    cases ua.qs <;> cases mem 43 ua.unsafeS <;> simp
  · have : mem c ua.unsafeS = false := by
      cases hm : mem c ua.unsafeS with
      | false => rfl
      | true => exact absurd (hun c (mem_iff.mp hm)) hc
    simp [hc, this]

/-- every unquoter configuration whose `unsafe` is at most "+" and whose `ignore` is ASCII computes the textbook
    decoding with the `keep` set and '+' flag read off its table -/
theorem uargs_decode (ua : UArgs) (b : Backend) (hun : ∀ x ∈ ua.unsafeS, x = 43)
    (hig : ∀ x ∈ ua.ignoreS, x < 128) (s : Str) :
    DecodeSpec b (ua.tab b) s = pctUtf8Decode (ua.keeps b) ua.plusIsSpace s :=
  decodeSpec_eq b (ua.tab b) (ua.keeps b) ua.plusIsSpace (uqPlain_plus ua b hun)
    (fun c _ _ => uqEmit_keeps ua b (fun x hx => by rw [hun x hx]; decide) hig c) s.length s (Nat.le_refl _)



/-! ### `utf8Head` looks at the sequence only; runs decode independently across a non-continuation byte -/

theorem utf8Head_append {bs : List Nat} {c k : Nat} (h : utf8Head bs = some (c, k)) (more : List Nat) :
    utf8Head (bs ++ more) = some (c, k) := by
  obtain ⟨h1, h2, h3, rest, rfl⟩ := (utf8Head_iff bs c k).mp h
  rw [List.append_assoc, h3]; exact utf8Head_prefix c h1 h2 _

theorem utf8Head_of_append {bs more : List Nat} {c k : Nat} (h : utf8Head (bs ++ more) = some (c, k))
    (hk : k ≤ bs.length) : utf8Head bs = some (c, k) := by
  obtain ⟨h1, h2, h3, h4, h5⟩ := utf8Head_some h
  rw [List.take_append_of_le_length hk] at h5
  rw [utf8Head_iff]
  exact ⟨h1, h2, h3, bs.drop k, by rw [← h5, List.take_append_drop]⟩

/-- a well-formed sequence does not reach over a byte that is not a continuation byte -/
theorem utf8Head_le_of_not_cont {bs1 : List Nat} {x : Nat} {bs2 : List Nat} {c k : Nat}
    (h : utf8Head (bs1 ++ x :: bs2) = some (c, k)) (h0 : bs1 ≠ []) (hx : isCont x = false) :
    k ≤ bs1.length := by
  obtain ⟨h1, h2, h3, h4, h5⟩ := utf8Head_some h
  apply Classical.byContradiction
  intro hk
  have hpos : 0 < bs1.length := List.length_pos_iff.mpr h0
  have hd : (utf8 c).drop bs1.length = x :: (bs2.take (k - bs1.length - 1)) := by
    rw [← h5, List.drop_take, List.drop_append_of_le_length (Nat.le_refl _), List.drop_length,
      List.nil_append]
    obtain ⟨j, hj⟩ : ∃ j, k - bs1.length = j + 1 := ⟨k - bs1.length - 1, by omega⟩
    rw [hj, List.take_succ_cons]
    congr 2
  have := utf8_tail_cont c h1 h2 bs1.length hpos x _ hd
  unfold Cont at this
  have hx' : ¬ (isCont x = true) := by simp [hx]
  exact hx' (isCont_iff.mpr this)

theorem decodeEscapes_append (keep : Nat → Bool) (es2 : List (Nat × Str))
    (h2 : ∀ e, es2.head? = some e → isCont e.1 = false) :
    ∀ n (es1 : List (Nat × Str)), es1.length ≤ n →
      decodeEscapes keep (es1 ++ es2) = decodeEscapes keep es1 ++ decodeEscapes keep es2 := by
  intro n
  induction n with
  | zero =>
    intro es1 hl
    have : es1 = [] := List.eq_nil_of_length_eq_zero (by omega)
    subst this
    rw [decodeEscapes_nil]; rfl
  | succ n ih =>
    intro es1 hl
    match es1, hl with
    | [], _ => rw [decodeEscapes_nil]; rfl
    | e :: es1', hl =>
      simp only [List.length_cons] at hl
      rw [List.cons_append]
      cases hh : utf8Head (runBytes (e :: (es1' ++ es2))) with
      | none =>
        have hh1 : utf8Head (runBytes (e :: es1')) = none := by
          cases hq : utf8Head (runBytes (e :: es1')) with
          | none => rfl
          | some q =>
            have := utf8Head_append (c := q.1) (k := q.2) hq (runBytes es2)
            have e2 : runBytes (e :: es1') ++ runBytes es2 = runBytes (e :: (es1' ++ es2)) := by
              simp [runBytes]
            rw [e2, hh] at this; cases this
        rw [decodeEscapes_none keep e _ hh, decodeEscapes_none keep e _ hh1, ih es1' (by omega),
          List.append_assoc]
      | some q =>
        obtain ⟨c, k⟩ := q
        have e2 : runBytes (e :: (es1' ++ es2)) = runBytes (e :: es1') ++ runBytes es2 := by
          simp [runBytes]
        have hk0 := (utf8Head_some hh).2.2.2.1
        have hle : k ≤ (e :: es1').length := by
          match es2, h2 with
          | [], _ =>
            have := (utf8Head_some hh).2.2.2.2
            have hl2 := congrArg List.length this
            rw [List.length_take, ← (utf8Head_some hh).2.2.1] at hl2
            simp only [runBytes, List.length_map, List.length_cons, List.append_nil] at hl2 ⊢
            omega
          | x :: es2', h2 =>
            have hx := h2 x rfl
            rw [e2] at hh
            have := utf8Head_le_of_not_cont (bs1 := runBytes (e :: es1')) (x := x.1)
              (bs2 := runBytes es2') hh (by simp [runBytes]) hx
            simpa [runBytes] using this
        have hh1 : utf8Head (runBytes (e :: es1')) = some (c, k) := by
          rw [e2] at hh
          exact utf8Head_of_append hh (by simpa [runBytes] using hle)
        rw [decodeEscapes_some keep e _ c k hh, decodeEscapes_some keep e _ c k hh1,
          ← List.cons_append, List.drop_append_of_le_length hle,
          ih _ (by simp only [List.length_drop, List.length_cons]; omega), List.append_assoc]

/-! ### `escapeRun` and `pctUtf8Decode` on concatenations -/

theorem hexValue_of_restoreCh {d1 d2 v : Nat} (h : restoreCh d1 d2 = some v) :
    ∃ a b, hexValue d1 = some a ∧ hexValue d2 = some b ∧ v = 16 * a + b := by
  simp only [hexValue_eq]
  unfold restoreCh at h
  cases h1 : fromHex d1 <;> cases h2 : fromHex d2 <;> simp [h1, h2] at h
  exact ⟨_, _, rfl, rfl, by omega⟩

theorem escapeRun_esc {d1 d2 v : Nat} (h : restoreCh d1 d2 = some v) (r : Str) :
    escapeRun (37 :: d1 :: d2 :: r) = ((v, [37, d1, d2]) :: (escapeRun r).1, (escapeRun r).2) := by
  obtain ⟨a, b, ha, hb, rfl⟩ := hexValue_of_restoreCh h
  rw [escapeRun]
  simp only [ha, hb]

theorem escapeRun_noesc {s : Str} (h : ¬ StartsEscape s) : escapeRun s = ([], s) := by
  obtain ⟨h1, h2, h3, h4⟩ := escapeRun_spec s
  cases he : (escapeRun s).1 with
  | nil => exact Prod.ext he (h4 he)
  | cons e es =>
    exfalso
    obtain ⟨d1, d2, ht, hv⟩ := h2 e (by rw [he]; simp)
    apply h
    refine ⟨d1, d2, runText es ++ (escapeRun s).2, e.1, ?_, hv⟩
    conv => lhs; rw [h1, he]
    simp [runText, ht]

/-- the run in front of a string joins the run that starts it -/
theorem escapeRun_run (es : List (Nat × Str)) (hes : ∀ e ∈ es, EscOK e) (x : Str) :
    escapeRun (runText es ++ x) = (es ++ (escapeRun x).1, (escapeRun x).2) := by
  induction es with
  | nil => rfl
  | cons e es ih =>
    obtain ⟨d1, d2, ht, hv⟩ := hes e (by simp)
    have : runText (e :: es) ++ x = 37 :: d1 :: d2 :: (runText es ++ x) := by simp [runText, ht]
    rw [this, escapeRun_esc hv, ih (fun y hy => hes y (List.mem_cons_of_mem _ hy))]
    simp only [List.cons_append, ← ht]

theorem pctUtf8Decode_unfold (keep : Nat → Bool) (plus : Bool) (s : Str) :
    pctUtf8Decode keep plus s =
      decodeEscapes keep (escapeRun s).1 ++ pctUtf8Decode keep plus (escapeRun s).2 := by
  by_cases h : (escapeRun s).1 = []
  · rw [h, (escapeRun_spec s).2.2.2 h, decodeEscapes_nil]; rfl
  · exact pctUtf8Decode_run keep plus s h

theorem pctUtf8Decode_runText (keep : Nat → Bool) (plus : Bool) (es : List (Nat × Str))
    (hes : ∀ e ∈ es, EscOK e) (x : Str) :
    pctUtf8Decode keep plus (runText es ++ x) =
      decodeEscapes keep (es ++ (escapeRun x).1) ++ pctUtf8Decode keep plus (escapeRun x).2 := by
  rw [pctUtf8Decode_unfold, escapeRun_run es hes x]

theorem pctUtf8Decode_noesc (keep : Nat → Bool) (plus : Bool) (c : Nat) (r : Str)
    (h : ¬ StartsEscape (c :: r)) :
    pctUtf8Decode keep plus (c :: r) =
      (if c = 43 ∧ plus = true then 32 else c) :: pctUtf8Decode keep plus r :=
  pctUtf8Decode_plain keep plus c r (by rw [escapeRun_noesc h])

/-- the first character of `s2` is not a hex digit: no escape reaches from `s1` into `s2` -/
def HeadNotHex (s2 : Str) : Prop := ∀ c, s2.head? = some c → hexValue c = none

theorem not_startsEscape_append {s1 s2 : Str} (h1 : s1 ≠ []) (hn : ¬ StartsEscape s1) (h2 : HeadNotHex s2) :
    ¬ StartsEscape (s1 ++ s2) := by
  rintro ⟨d1, d2, r, v, he, hv⟩
  obtain ⟨a, b, ha, hb, _⟩ := hexValue_of_restoreCh hv
  match s1, h1, hn, he with
  | [c], _, _, he =>
    simp only [List.cons_append, List.nil_append, List.cons.injEq] at he
    have := h2 d1 (by rw [he.2]; rfl)
    rw [ha] at this; cases this
  | [c, x], _, _, he =>
    simp only [List.cons_append, List.nil_append, List.cons.injEq] at he
    have := h2 d2 (by rw [he.2.2]; rfl)
    rw [hb] at this; cases this
  | c :: x :: y :: t, _, hn, he =>
    simp only [List.cons_append, List.cons.injEq] at he
    obtain ⟨rfl, rfl, rfl, _⟩ := he
    exact hn ⟨x, y, t, v, rfl, hv⟩

/-- CONCATENATION: when `s2` does not start with a hex digit nor with the escape of a continuation byte, the two
    parts are decoded independently -/
theorem pctUtf8Decode_append (keep : Nat → Bool) (plus : Bool) (s2 : Str) (h2 : HeadNotHex s2)
    (hc : ∀ e, (escapeRun s2).1.head? = some e → isCont e.1 = false) :
    ∀ n (s1 : Str), s1.length ≤ n →
      pctUtf8Decode keep plus (s1 ++ s2) = pctUtf8Decode keep plus s1 ++ pctUtf8Decode keep plus s2 := by
  intro n
  induction n with
  | zero =>
    intro s1 hl
    have : s1 = [] := List.eq_nil_of_length_eq_zero (by omega)
    subst this
    rw [pctUtf8Decode_nil]; rfl
  | succ n ih =>
    intro s1 hl
    obtain ⟨h1, hes, h3, h4⟩ := escapeRun_spec s1
    have hlen := escapeRun_length s1
    generalize hE : (escapeRun s1).1 = es at h1 hes h4 hlen
    generalize hR : (escapeRun s1).2 = r' at h1 h3 h4 hlen
    have hs1 : pctUtf8Decode keep plus s1 = decodeEscapes keep es ++ pctUtf8Decode keep plus r' := by
      rw [pctUtf8Decode_unfold, hE, hR]
    match r', h1, h3, hlen, hs1 with
    | [], h1, _, _, hs1 =>
      rw [hs1, pctUtf8Decode_nil, List.append_nil]
      conv => lhs; rw [h1, List.append_nil]
      rw [pctUtf8Decode_runText keep plus es hes s2, decodeEscapes_append keep _ hc _ _ (Nat.le_refl _),
        List.append_assoc, ← pctUtf8Decode_unfold]
    | c :: t, h1, h3, hlen, hs1 =>
      have hns : ¬ StartsEscape ((c :: t) ++ s2) := not_startsEscape_append (by simp) h3 h2
      rw [hs1, pctUtf8Decode_noesc keep plus c t h3]
      conv => lhs; rw [h1, List.append_assoc]
      rw [pctUtf8Decode_runText keep plus es hes, escapeRun_noesc hns, List.append_nil]
      simp only []
      rw [List.cons_append, pctUtf8Decode_noesc keep plus c (t ++ s2) hns,
        ih t (by simp only [List.length_cons] at hlen; omega)]
      simp





theorem escapeBytes_nil : escapeBytes [] = [] := by rw [escapeBytes]

theorem escapeBytes_noesc (c : Nat) (r : Str) (h : ¬ StartsEscape (c :: r)) :
    escapeBytes (c :: r) = escapeBytes r := by
  rw [escapeBytes]
  split
  · rfl
  · rename_i h'; rw [escapeRun_noesc h] at h'; cases h'

theorem escapeBytes_unfold (s : Str) :
    escapeBytes s = runBytes (escapeRun s).1 ++ escapeBytes (escapeRun s).2 := by
  match s with
  | [] =>
    have : escapeRun [] = ([], []) := rfl
    rw [this, escapeBytes_nil]; rfl
  | c :: r =>
    by_cases hs : StartsEscape (c :: r)
    · rw [escapeBytes]
      split
      · rename_i h'
        exfalso
        have h4 := (escapeRun_spec (c :: r)).2.2.1
        have := (escapeRun_spec (c :: r)).2.2.2 (by rw [h'])
        rw [this] at h4
        exact h4 hs
      · rename_i h'; rw [h']
    · rw [escapeRun_noesc hs]; rfl

/-! ### characters that are not kept: `keep` is irrelevant for strings without escapes of kept characters -/

theorem decodeEscapes_keep_irrelevant (keep : Nat → Bool) (hk : ∀ c, keep c = true → c < 128) :
    ∀ n (es : List (Nat × Str)), es.length ≤ n → (∀ e ∈ es, keep e.1 = false) →
      decodeEscapes keep es = decodeEscapes (fun _ => false) es := by
  intro n
  induction n with
  | zero =>
    intro es hl _
    have : es = [] := List.eq_nil_of_length_eq_zero (by omega)
    subst this
    rw [decodeEscapes_nil, decodeEscapes_nil]
  | succ n ih =>
    intro es hl hes
    match es, hl, hes with
    | [], _, _ => rw [decodeEscapes_nil, decodeEscapes_nil]
    | e :: es, hl, hes =>
      simp only [List.length_cons] at hl
      cases hh : utf8Head (runBytes (e :: es)) with
      | none =>
        rw [decodeEscapes_none keep e es hh, decodeEscapes_none _ e es hh,
          ih es (by omega) (fun x hx => hes x (List.mem_cons_of_mem _ hx))]
      | some q =>
        obtain ⟨c, k⟩ := q
        obtain ⟨h1, h2, h3, h4, h5⟩ := utf8Head_some hh
        have hkc : keep c = false := by
          cases hkc : keep c with
          | false => rfl
          | true =>
            have hc := hk c hkc
            rw [utf8_1 c hc] at h3 h5
            simp only [List.length_cons, List.length_nil] at h3
            subst h3
            simp only [runBytes, List.map_cons, List.take_succ_cons, List.take_zero, List.cons.injEq,
              and_true] at h5
            rw [← h5, hes e (by simp)] at hkc
            cases hkc
        rw [decodeEscapes_some keep e es c k hh, decodeEscapes_some _ e es c k hh, hkc,
          ih _ (by simp only [List.length_drop, List.length_cons]; omega)
            (fun x hx => hes x (List.mem_of_mem_drop hx))]

theorem pctUtf8Decode_keep_irrelevant (keep : Nat → Bool) (plus : Bool) (hk : ∀ c, keep c = true → c < 128) :
    ∀ n (s : Str), s.length ≤ n → (∀ v ∈ escapeBytes s, keep v = false) →
      pctUtf8Decode keep plus s = pctUtf8Decode (fun _ => false) plus s := by
  intro n
  induction n with
  | zero =>
    intro s hl _
    have : s = [] := List.eq_nil_of_length_eq_zero (by omega)
    subst this
    rw [pctUtf8Decode_nil, pctUtf8Decode_nil]
  | succ n ih =>
    intro s hl hv
    match s, hl, hv with
    | [], _, _ => rw [pctUtf8Decode_nil, pctUtf8Decode_nil]
    | c :: r, hl, hv =>
      simp only [List.length_cons] at hl
      by_cases hs : StartsEscape (c :: r)
      · have hlen := escapeRun_length (c :: r)
        have hne : (escapeRun (c :: r)).1 ≠ [] := by
          intro h0
          have h3 := (escapeRun_spec (c :: r)).2.2.1
          rw [(escapeRun_spec (c :: r)).2.2.2 h0] at h3
          exact h3 hs
        have hpos : 0 < (escapeRun (c :: r)).1.length := List.length_pos_iff.mpr hne
        rw [escapeBytes_unfold] at hv
        rw [pctUtf8Decode_unfold keep, pctUtf8Decode_unfold (fun _ => false),
          decodeEscapes_keep_irrelevant keep hk _ _ (Nat.le_refl _)
            (fun e he => hv e.1 (List.mem_append_left _ (List.mem_map_of_mem he))),
          ih _ (by simp only [List.length_cons] at hlen; omega)
            (fun v hv' => hv v (List.mem_append_right _ hv'))]
      · rw [escapeBytes_noesc c r hs] at hv
        rw [pctUtf8Decode_noesc keep plus c r hs, pctUtf8Decode_noesc _ plus c r hs, ih r (by omega) hv]

/-! ### '+' as space = decoding the string with every literal '+' replaced by a space -/

theorem hexValue_plus (c : Nat) : hexValue (if c = 43 then 32 else c) = hexValue c := by
  by_cases h : c = 43
  · subst h; decide
  · simp [h]

theorem startsEscape_plusToSpace (s : Str) : StartsEscape (plusToSpace s) ↔ StartsEscape s := by
  have hv : ∀ d1 d2, restoreCh (if d1 = 43 then 32 else d1) (if d2 = 43 then 32 else d2) = restoreCh d1 d2 := by
    intro d1 d2
    unfold restoreCh
    rw [← hexValue_eq, ← hexValue_eq, ← hexValue_eq, ← hexValue_eq, hexValue_plus, hexValue_plus]
  constructor
  · rintro ⟨d1, d2, r, v, he, hv'⟩
    match s, he with
    | [], he => simp [plusToSpace] at he
    | [_], he => simp [plusToSpace] at he
    | [_, _], he => simp [plusToSpace] at he
    | c :: x :: y :: t, he =>
      simp only [plusToSpace, List.map_cons, List.cons.injEq] at he
      obtain ⟨h1, h2, h3, _⟩ := he
      have hc : c = 37 := by
        by_cases h : c = 43
        · simp [h] at h1
        · simpa [h] using h1
      subst hc
      refine ⟨x, y, t, v, rfl, ?_⟩
      rw [← hv, h2, h3]; exact hv'
  · rintro ⟨d1, d2, r, v, rfl, hv'⟩
    refine ⟨_, _, plusToSpace r, v, ?_, (hv d1 d2).trans hv'⟩
    simp [plusToSpace]

theorem escapeRun_plusToSpace (s : Str) :
    escapeRun (plusToSpace s) = ((escapeRun s).1, plusToSpace (escapeRun s).2) := by
  have key : ∀ n (s : Str), s.length ≤ n →
      escapeRun (plusToSpace s) = ((escapeRun s).1, plusToSpace (escapeRun s).2) := by
    intro n
    induction n with
    | zero =>
      intro s hl
      have : s = [] := List.eq_nil_of_length_eq_zero (by omega)
      subst this; rfl
    | succ n ih =>
      intro s hl
      by_cases hs : StartsEscape s
      · obtain ⟨d1, d2, r, v, rfl, hv⟩ := hs
        obtain ⟨a, b, ha, hb, _⟩ := hexValue_of_restoreCh hv
        have h43 : hexValue 43 = none := by decide
        have h1 : d1 ≠ 43 := by rintro rfl; rw [h43] at ha; cases ha
        have h2 : d2 ≠ 43 := by rintro rfl; rw [h43] at hb; cases hb
        have : plusToSpace (37 :: d1 :: d2 :: r) = 37 :: d1 :: d2 :: plusToSpace r := by
          simp [plusToSpace, h1, h2]
        rw [this, escapeRun_esc hv, escapeRun_esc hv, ih r (by simp only [List.length_cons] at hl; omega)]
      · rw [escapeRun_noesc hs, escapeRun_noesc (fun h => hs ((startsEscape_plusToSpace s).mp h))]
  exact key s.length s (Nat.le_refl _)

theorem pctUtf8Decode_plus (keep : Nat → Bool) :
    ∀ n (s : Str), s.length ≤ n →
      pctUtf8Decode keep true s = pctUtf8Decode keep false (plusToSpace s) := by
  intro n
  induction n with
  | zero =>
    intro s hl
    have : s = [] := List.eq_nil_of_length_eq_zero (by omega)
    subst this
    rw [pctUtf8Decode_nil]; exact (pctUtf8Decode_nil keep false).symm
  | succ n ih =>
    intro s hl
    match s, hl with
    | [], _ => rw [pctUtf8Decode_nil]; exact (pctUtf8Decode_nil keep false).symm
    | c :: r, hl =>
      simp only [List.length_cons] at hl
      by_cases hs : StartsEscape (c :: r)
      · have hlen := escapeRun_length (c :: r)
        have hne : (escapeRun (c :: r)).1 ≠ [] := by
          intro h0
          have h3 := (escapeRun_spec (c :: r)).2.2.1
          rw [(escapeRun_spec (c :: r)).2.2.2 h0] at h3
          exact h3 hs
        have hpos : 0 < (escapeRun (c :: r)).1.length := List.length_pos_iff.mpr hne
        rw [pctUtf8Decode_unfold keep true, pctUtf8Decode_unfold keep false, escapeRun_plusToSpace,
          ih _ (by simp only [List.length_cons] at hlen; omega)]
      · have hs' : ¬ StartsEscape (plusToSpace (c :: r)) := fun h => hs ((startsEscape_plusToSpace _).mp h)
        rw [pctUtf8Decode_noesc keep true c r hs]
        have : plusToSpace (c :: r) = (if c = 43 then 32 else c) :: plusToSpace r := by simp [plusToSpace]
        rw [this] at hs' ⊢
        rw [pctUtf8Decode_noesc keep false _ _ hs', ih r (by omega)]
        by_cases h43 : c = 43
        · subst h43; simp
        · simp [h43]

theorem escapeBytes_plusToSpace : ∀ n (s : Str), s.length ≤ n → escapeBytes (plusToSpace s) = escapeBytes s := by
  intro n
  induction n with
  | zero =>
    intro s hl
    have : s = [] := List.eq_nil_of_length_eq_zero (by omega)
    subst this; rfl
  | succ n ih =>
    intro s hl
    have hlen := escapeRun_length s
    rw [escapeBytes_unfold (plusToSpace s), escapeBytes_unfold s, escapeRun_plusToSpace]
    by_cases hs : StartsEscape s
    · have hne : (escapeRun s).1 ≠ [] := by
        intro h0
        have h3 := (escapeRun_spec s).2.2.1
        rw [(escapeRun_spec s).2.2.2 h0] at h3
        exact h3 hs
      have hpos : 0 < (escapeRun s).1.length := List.length_pos_iff.mpr hne
      rw [ih _ (by omega)]
    · rw [escapeRun_noesc hs]
      match s, hl with
      | [], _ => rfl
      | c :: r, hl =>
        have hs' : ¬ StartsEscape (plusToSpace (c :: r)) := fun h => hs ((startsEscape_plusToSpace _).mp h)
        have : plusToSpace (c :: r) = (if c = 43 then 32 else c) :: plusToSpace r := by simp [plusToSpace]
        rw [this] at hs' ⊢
        simp only [List.map_nil, List.nil_append]
        rw [escapeBytes_noesc _ _ hs', escapeBytes_noesc _ _ hs,
          ih r (by simp only [List.length_cons] at hl; omega)]


end DecMore

namespace DecMore
open Rfc DecLemmas Readback UnquoteEquiv SpecLemmas GenTabs

/-! ### reading a `keep` set off a table -/

theorem keeps_eq (ua : UArgs) (b : Backend) (f : Nat → Bool) (hun : ∀ x ∈ ua.unsafeS, x < 128)
    (hig : ∀ x ∈ ua.ignoreS, x < 128) (hlo : ∀ c, c < 128 → ua.keeps b c = f c)
    (hhi : ∀ c, 128 ≤ c → f c = false) : ua.keeps b = f := by
  funext c
  by_cases hc : c < 128
  · exact hlo c hc
  · have h1 : mem c "+=&;".toStr = false := mem_false_of_all (n := 128) (by decide) (by omega)
    have h2 : mem c ua.unsafeS = false := mem_false_of_all hun (by omega)
    have h3 : mem c ua.ignoreS = false := mem_false_of_all hig (by omega)
    rw [hhi c (by omega)]
    simp [UArgs.keeps, h1, h2, h3]

/-! ### one run in context -/

theorem headNotHex_runText {es : List (Nat × Str)} (hes : ∀ e ∈ es, EscOK e) (hne : es ≠ []) (s2 : Str) :
    HeadNotHex (runText es ++ s2) := by
  match es, hes, hne with
  | e :: es', hes, _ =>
    obtain ⟨d1, d2, ht, _⟩ := hes e (by simp)
    intro c hc
    simp only [runText, List.map_cons, List.flatten_cons, ht, List.cons_append, List.head?_cons,
      Option.some.injEq] at hc
    subst hc; decide

/-- a run of escapes whose first byte is not a continuation byte, in ANY context: if the run (followed by the
    escapes that `s2` starts with) decodes to `X` and then those escapes on their own, the whole string decodes to
    the decoding of `s1`, then `X`, then the decoding of `s2` -/
theorem pct_ctx (keep : Nat → Bool) (plus : Bool) (es : List (Nat × Str)) (hes : ∀ e ∈ es, EscOK e)
    (hne : es ≠ []) (hhead : ∀ e, es.head? = some e → isCont e.1 = false) (X s1 s2 : Str)
    (hd : decodeEscapes keep (es ++ (escapeRun s2).1) = X ++ decodeEscapes keep (escapeRun s2).1) :
    pctUtf8Decode keep plus (s1 ++ runText es ++ s2) =
      pctUtf8Decode keep plus s1 ++ X ++ pctUtf8Decode keep plus s2 := by
  have hC : ∀ e, (escapeRun (runText es ++ s2)).1.head? = some e → isCont e.1 = false := by
    intro e he
    rw [escapeRun_run es hes s2] at he
    apply hhead e
    match es, hne, he with
    | x :: es', _, he => simpa using he
  rw [List.append_assoc, pctUtf8Decode_append keep plus _ (headNotHex_runText hes hne s2) hC _ s1 (Nat.le_refl _),
    pctUtf8Decode_runText keep plus es hes s2, hd, List.append_assoc, ← pctUtf8Decode_unfold, List.append_assoc]

/-- a character that is not a hex digit and starts no escape, in ANY context -/
theorem pct_ctx_plain (keep : Nat → Bool) (plus : Bool) (c : Nat) (hc : hexValue c = none) (s1 s2 : Str)
    (hns : ¬ StartsEscape (c :: s2)) :
    pctUtf8Decode keep plus (s1 ++ c :: s2) =
      pctUtf8Decode keep plus s1 ++ (if c = 43 ∧ plus = true then 32 else c) :: pctUtf8Decode keep plus s2 := by
  have hB : HeadNotHex (c :: s2) := by
    intro x hx; simp only [List.head?_cons, Option.some.injEq] at hx; subst hx; exact hc
  have hC : ∀ e, (escapeRun (c :: s2)).1.head? = some e → isCont e.1 = false := by
    intro e he; rw [escapeRun_noesc hns] at he; cases he
  rw [pctUtf8Decode_append keep plus _ hB hC _ s1 (Nat.le_refl _), pctUtf8Decode_noesc keep plus c s2 hns]

/-- escapes of bytes that can start no sequence, at the start of a run, are copied as written -/
theorem decodeEscapes_badLead (keep : Nat → Bool) (qs : List (Nat × Str)) (hq : ∀ e ∈ qs, BadLead e.1)
    (tl : List (Nat × Str)) : decodeEscapes keep (qs ++ tl) = runText qs ++ decodeEscapes keep tl := by
  induction qs with
  | nil => rfl
  | cons q qs ih =>
    rw [List.cons_append, decodeEscapes_none keep q (qs ++ tl) (utf8Head_badLead _ (hq q (by simp)) _),
      ih (fun e he => hq e (List.mem_cons_of_mem _ he))]
    simp [runText]

/-- `s2` does not start with the escape of a continuation byte -/
def NoContStart (s2 : Str) : Prop :=
  ∀ d1 d2 r v, s2 = 37 :: d1 :: d2 :: r → restoreCh d1 d2 = some v → isCont v = false

theorem noContStart_of_not_startsEscape {s2 : Str} (h : ¬ StartsEscape s2) : NoContStart s2 :=
  fun d1 d2 r v he hv => absurd ⟨d1, d2, r, v, he, hv⟩ h

theorem noContStart_head {s2 : Str} (h : NoContStart s2) :
    ∀ e, (escapeRun s2).1.head? = some e → isCont e.1 = false := by
  intro e he
  by_cases hs : StartsEscape s2
  · obtain ⟨d1, d2, r, v, rfl, hv⟩ := hs
    rw [escapeRun_esc hv] at he
    simp only [List.head?_cons, Option.some.injEq] at he
    subst he
    exact h d1 d2 r v rfl hv
  · rw [escapeRun_noesc hs] at he; cases he

theorem utf8Head_ED_A0_80 (rest : List Nat) : utf8Head (0xED :: 0xA0 :: 0x80 :: rest) = none := by
  rfl

end DecMore

open Rfc DecMore DecLemmas SpecLemmas UnquoteEquiv

/-! # C06 — the decoded accessors ARE the textbook UTF-8 percent-decoding (`Rfc.pctUtf8Decode`) -/

/-! ## 0. the specification is the textbook one -/

/-- `Rfc.utf8Head bs = some (c, k)` iff `c` is a Unicode scalar value (≤ U+10FFFF, no surrogate) whose UTF-8 encoding —
    `k` bytes — is a prefix of `bs`.  UTF-8 being a prefix code, there is at most one such `c`: `utf8Head` returns THE
    well-formed sequence at the head of the bytes, and `none` iff there is none (stray continuation byte, truncated,
    overlong, surrogate, above U+10FFFF, `C0`/`C1`/`F5`…`FF`). -/
theorem C06_utf8Head_textbook (bs : List Nat) :
    (∀ c k, utf8Head bs = some (c, k) ↔
      c ≤ 0x10FFFF ∧ isSurrogate c = false ∧ k = (utf8 c).length ∧ ∃ rest, bs = utf8 c ++ rest) ∧
    (utf8Head bs = none ↔ ∀ c, c ≤ 0x10FFFF → isSurrogate c = false → ∀ rest, bs ≠ utf8 c ++ rest) :=
  ⟨fun c k => utf8Head_iff bs c k, utf8Head_none_iff bs⟩

/-- the specification's own hex tables and percent-encoder agree with the library's (`_from_hex`, `_to_hex`,
    `_write_utf8`) -/
theorem C06_spec_hex_agrees : (∀ c, hexValue c = fromHex c) ∧ (∀ v, hexDigit v = toHex v) ∧
    (∀ c, pctEncode c = writeUtf8 c) ∧ (∀ c, c < 128 → pctEncode c = pct c) :=
  ⟨hexValue_eq, hexDigit_eq, pctEncode_eq, pctEncode_ascii⟩

/-! ## 1. the four generated unquoter tables: `keep` set and '+' flag, explicitly -/

/-- ITEM 1, keep sets.  What each generated `_Unquoter` keeps encoded and whether a literal '+' is a space, computed
    from the generated tables (`UArgs.keeps`: a decoded character is sent back through the inner `_Quoter()` /
    `_Quoter(qs=True)`; it stays an escape iff that quoter's table does not keep it literal) on both backends:
    UNQUOTER and PATH_UNQUOTER keep NOTHING encoded (PATH_UNQUOTER has `unsafe="+"`, but the inner quoter writes '+'
    literally: `%2B` → '+'); PATH_SAFE_UNQUOTER keeps exactly '/' and '%' (`%2F` → `%2F`, `%25` → `%25`; `%2B` → '+');
    QS_UNQUOTER keeps exactly '+' '=' '&' ';' (`%2B %3D %26 %3B` all stay) and is the only one where a literal '+' is a
    space. -/
theorem C06_unquoter_keep_sets (b : Backend) :
    (Gen.UNQUOTER.keeps b = keepNone ∧ Gen.UNQUOTER.plusIsSpace = false) ∧
    (Gen.PATH_UNQUOTER.keeps b = keepNone ∧ Gen.PATH_UNQUOTER.plusIsSpace = false) ∧
    (Gen.PATH_SAFE_UNQUOTER.keeps b = keepSlashPercent ∧ Gen.PATH_SAFE_UNQUOTER.plusIsSpace = false) ∧
    (Gen.QS_UNQUOTER.keeps b = keepQsDelims ∧ Gen.QS_UNQUOTER.plusIsSpace = true) := by
  have hhi0 : ∀ c, 128 ≤ c → keepNone c = false := fun _ _ => rfl
  have hhi1 : ∀ c, 128 ≤ c → keepSlashPercent c = false := by
    intro c hc; simp only [keepSlashPercent, Bool.or_eq_false_iff, beq_eq_false_iff_ne]; omega
  have hhi2 : ∀ c, 128 ≤ c → keepQsDelims c = false := by
    intro c hc; simp only [keepQsDelims, Bool.or_eq_false_iff, beq_eq_false_iff_ne]; omega
  refine ⟨⟨keeps_eq _ b _ (by decide) (by decide) ?_ hhi0, by decide⟩,
    ⟨keeps_eq _ b _ (by decide) (by decide) ?_ hhi0, by decide⟩,
    ⟨keeps_eq _ b _ (by decide) (by decide) ?_ hhi1, by decide⟩,
    ⟨keeps_eq _ b _ (by decide) (by decide) ?_ hhi2, by decide⟩⟩ <;> cases b <;> decide +kernel

/-- every generated unquoter satisfies the side conditions of the general theorem: `unsafe` ⊆ "+", `ignore` ASCII -/
theorem C06_generated_unquoters_shape :
    ∀ ua ∈ Gen.allUnquoters, (∀ x ∈ ua.unsafeS, x = 43) ∧ (∀ x ∈ ua.ignoreS, x < 128) := by decide

/-- ITEM 1, general form: an `_Unquoter` whose `unsafe` is at most "+" and whose `ignore` is ASCII computes, on both
    backends and for EVERY input, the textbook decoding with the `keep` set and '+' flag read off its table -/
theorem C06_unquoter_is_pctUtf8_of_table (ua : UArgs) (b : Backend) (hun : ∀ x ∈ ua.unsafeS, x = 43)
    (hig : ∀ x ∈ ua.ignoreS, x < 128) (s : Str) :
    ua.run b s = pctUtf8Decode (ua.keeps b) ua.plusIsSpace s ∧
    DecodeSpec b (ua.tab b) s = pctUtf8Decode (ua.keeps b) ua.plusIsSpace s :=
  ⟨by rw [C06_run_spec]; exact uargs_decode ua b hun hig s, uargs_decode ua b hun hig s⟩

/-- ITEM 1: the project specification `DecodeSpec` of each of the four generated tables IS the textbook decoding, for
    every input, on both backends — with the `keep` set and the '+' flag of each table EXPLICIT -/
theorem C06_decodeSpec_is_pctUtf8 (b : Backend) (s : Str) :
    DecodeSpec b (Gen.UNQUOTER.tab b) s = pctUtf8Decode keepNone false s ∧
    DecodeSpec b (Gen.PATH_UNQUOTER.tab b) s = pctUtf8Decode keepNone false s ∧
    DecodeSpec b (Gen.PATH_SAFE_UNQUOTER.tab b) s = pctUtf8Decode keepSlashPercent false s ∧
    DecodeSpec b (Gen.QS_UNQUOTER.tab b) s = pctUtf8Decode keepQsDelims true s := by
  obtain ⟨⟨k1, p1⟩, ⟨k2, p2⟩, ⟨k3, p3⟩, ⟨k4, p4⟩⟩ := C06_unquoter_keep_sets b
  refine ⟨?_, ?_, ?_, ?_⟩
  · rw [← k1, ← p1]; exact uargs_decode _ b (by decide) (by decide) s
  · rw [← k2, ← p2]; exact uargs_decode _ b (by decide) (by decide) s
  · rw [← k3, ← p3]; exact uargs_decode _ b (by decide) (by decide) s
  · rw [← k4, ← p4]; exact uargs_decode _ b (by decide) (by decide) s

/-- ITEM 1, at the level of the unquoters themselves (`_Unquoter.__call__` / `_do_unquote`, both backends) -/
theorem C06_unquoter_is_pctUtf8 (b : Backend) (s : Str) :
    Gen.UNQUOTER.run b s = pctUtf8Decode keepNone false s ∧
    Gen.PATH_UNQUOTER.run b s = pctUtf8Decode keepNone false s ∧
    Gen.PATH_SAFE_UNQUOTER.run b s = pctUtf8Decode keepSlashPercent false s ∧
    Gen.QS_UNQUOTER.run b s = pctUtf8Decode keepQsDelims true s := by
  simp only [C06_run_spec]
  exact C06_decodeSpec_is_pctUtf8 b s

/-! ## 2. per accessor -/

theorem C06_uq_is_pctUtf8 (e : Env) :
    uq e Gen.UNQUOTER = pctUtf8Decode keepNone false ∧
    uq e Gen.PATH_UNQUOTER = pctUtf8Decode keepNone false ∧
    uq e Gen.PATH_SAFE_UNQUOTER = pctUtf8Decode keepSlashPercent false ∧
    uq e Gen.QS_UNQUOTER = pctUtf8Decode keepQsDelims true :=
  ⟨funext fun s => (C06_unquoter_is_pctUtf8 e.b s).1, funext fun s => (C06_unquoter_is_pctUtf8 e.b s).2.1,
   funext fun s => (C06_unquoter_is_pctUtf8 e.b s).2.2.1, funext fun s => (C06_unquoter_is_pctUtf8 e.b s).2.2.2⟩

/-- `url.query_string` IS the textbook decoding of the raw query: '+' is a space, `%2B %3D %26 %3B` stay encoded -/
theorem C06_query_string_is_decoding (e : Env) (u : Url) :
    queryString e u = pctUtf8Decode keepQsDelims true u.query := by
  rw [(C06_accessor_spec e u).2.1, (C06_decodeSpec_is_pctUtf8 e.b u.query).2.2.2]
  cases hq : u.query with
  | nil => simp [pctUtf8Decode_nil]
  | cons c r => rfl

/-- `url.fragment` -/
theorem C06_fragment_is_decoding (e : Env) (u : Url) :
    fragmentDecoded e u = pctUtf8Decode keepNone false u.fragment := by
  rw [(C06_accessor_spec e u).1, (C06_decodeSpec_is_pctUtf8 e.b u.fragment).1]
  cases hq : u.fragment with
  | nil => simp [pctUtf8Decode_nil]
  | cons c r => rfl

/-- `url.path` (an empty raw path reads "" without and "/" with an authority) -/
theorem C06_path_is_decoding (e : Env) (u : Url) :
    pathDecoded e u = (if u.path.isEmpty then (if u.netloc.isEmpty then [] else [47])
                       else pctUtf8Decode keepNone false u.path) := by
  rw [(C06_accessor_spec e u).2.2.1, (C06_decodeSpec_is_pctUtf8 e.b u.path).2.1]

/-- `url.path_safe`: as `path`, but `%2F` and `%25` stay encoded -/
theorem C06_path_safe_is_decoding (e : Env) (u : Url) :
    pathSafe e u = (if u.path.isEmpty then (if u.netloc.isEmpty then [] else [47])
                    else pctUtf8Decode keepSlashPercent false u.path) := by
  rw [(C06_accessor_spec e u).2.2.2.1, (C06_decodeSpec_is_pctUtf8 e.b u.path).2.2.1]

/-- `url.parts`, `url.name`, `url.suffix`, `url.suffixes`: each raw segment / name / suffix decoded -/
theorem C06_parts_name_suffix_are_decodings (e : Env) (u : Url) :
    partsDecoded e u = (rawParts u).map (pctUtf8Decode keepNone false) ∧
    name e u = (rawName u).map (pctUtf8Decode keepNone false) ∧
    suffix e u = (rawSuffix u).map (pctUtf8Decode keepNone false) ∧
    suffixes e u = (rawSuffixes u).map (List.map (pctUtf8Decode keepNone false)) := by
  have h := (C06_uq_is_pctUtf8 e).1
  refine ⟨?_, ?_, ?_, ?_⟩
  · unfold partsDecoded; rw [h]
  · unfold name; rw [h]; cases rawName u <;> rfl
  · unfold suffix; rw [h]; cases rawSuffix u <;> rfl
  · unfold suffixes; rw [h]; cases rawSuffixes u <;> rfl

/-- `url.user`, `url.password` -/
theorem C06_user_is_decoding (e : Env) (u : Url) :
    user e u = (rawUser e u).map (Option.map (pctUtf8Decode keepNone false)) ∧
    password e u = (rawPassword e u).map (Option.map (pctUtf8Decode keepNone false)) := by
  have h := (C06_uq_is_pctUtf8 e).1
  constructor
  · unfold user; rw [h]; cases rawUser e u <;> rfl
  · unfold password; rw [h]; cases rawPassword e u <;> rfl

/-- ITEM 2, all string-valued decoded accessors at once; no hypothesis on the URL record -/
theorem C06_accessors_are_pctUtf8_decodings (e : Env) (u : Url) :
    user e u = (rawUser e u).map (Option.map (pctUtf8Decode keepNone false)) ∧
    password e u = (rawPassword e u).map (Option.map (pctUtf8Decode keepNone false)) ∧
    pathDecoded e u = (if u.path.isEmpty then (if u.netloc.isEmpty then [] else [47])
                       else pctUtf8Decode keepNone false u.path) ∧
    pathSafe e u = (if u.path.isEmpty then (if u.netloc.isEmpty then [] else [47])
                    else pctUtf8Decode keepSlashPercent false u.path) ∧
    partsDecoded e u = (rawParts u).map (pctUtf8Decode keepNone false) ∧
    name e u = (rawName u).map (pctUtf8Decode keepNone false) ∧
    suffix e u = (rawSuffix u).map (pctUtf8Decode keepNone false) ∧
    suffixes e u = (rawSuffixes u).map (List.map (pctUtf8Decode keepNone false)) ∧
    queryString e u = pctUtf8Decode keepQsDelims true u.query ∧
    fragmentDecoded e u = pctUtf8Decode keepNone false u.fragment :=
  ⟨(C06_user_is_decoding e u).1, (C06_user_is_decoding e u).2, C06_path_is_decoding e u,
   C06_path_safe_is_decoding e u, (C06_parts_name_suffix_are_decodings e u).1,
   (C06_parts_name_suffix_are_decodings e u).2.1, (C06_parts_name_suffix_are_decodings e u).2.2.1,
   (C06_parts_name_suffix_are_decodings e u).2.2.2, C06_query_string_is_decoding e u,
   C06_fragment_is_decoding e u⟩

/-! ### the valid-UTF-8 corollaries missing from `C06_decodes_utf8` -/

/-- the textbook decoding does not depend on `keep` for a string none of whose escapes is a kept (ASCII) character -/
theorem C06_pct_keep_irrelevant (keep : Nat → Bool) (plus : Bool) (hk : ∀ c, keep c = true → c < 128) (s : Str)
    (h : ∀ v ∈ escapeBytes s, keep v = false) :
    pctUtf8Decode keep plus s = pctUtf8Decode keepNone plus s :=
  pctUtf8Decode_keep_irrelevant keep plus hk s.length s (Nat.le_refl _) h

/-- '+' as space = decoding the string in which every literal '+' has been replaced by a space -/
theorem C06_pct_plus_is_replace (keep : Nat → Bool) (s : Str) :
    pctUtf8Decode keep true s = pctUtf8Decode keep false (plusToSpace s) :=
  pctUtf8Decode_plus keep s.length s (Nat.le_refl _)

/-- so `QS_UNQUOTER(s) == UNQUOTER(s.replace("+", " "))` for a raw query without escapes of '+' '=' '&' ';', and
    `PATH_SAFE_UNQUOTER(s) == UNQUOTER(s)` for a raw path without escapes of '/' '%' -/
theorem C06_qs_path_safe_reduce_to_unquoter (b : Backend) (s : Str) :
    ((∀ v ∈ escapeBytes s, keepQsDelims v = false) →
      Gen.QS_UNQUOTER.run b s = Gen.UNQUOTER.run b (plusToSpace s)) ∧
    ((∀ v ∈ escapeBytes s, keepSlashPercent v = false) →
      Gen.PATH_SAFE_UNQUOTER.run b s = Gen.UNQUOTER.run b s) := by
  have hk1 : ∀ c, keepQsDelims c = true → c < 128 := by
    intro c hc; simp only [keepQsDelims, Bool.or_eq_true, beq_iff_eq] at hc; omega
  have hk2 : ∀ c, keepSlashPercent c = true → c < 128 := by
    intro c hc; simp only [keepSlashPercent, Bool.or_eq_true, beq_iff_eq] at hc; omega
  constructor
  · intro h
    rw [(C06_unquoter_is_pctUtf8 b s).2.2.2, (C06_unquoter_is_pctUtf8 b (plusToSpace s)).1,
      C06_pct_plus_is_replace, C06_pct_keep_irrelevant keepQsDelims false hk1]
    rw [escapeBytes_plusToSpace _ s (Nat.le_refl _)]; exact h
  · intro h
    rw [(C06_unquoter_is_pctUtf8 b s).2.2.1, (C06_unquoter_is_pctUtf8 b s).1,
      C06_pct_keep_irrelevant keepSlashPercent false hk2 s h]

/-- ITEM 2, valid UTF-8, QS_UNQUOTER (`query_string`): when form-decoding the raw query to bytes (`pctDecodeQs`: '+' →
    space, `%XY` → byte) gives the UTF-8 encoding of a text `t`, and no escape of the raw query is one of the kept
    `%2B %3D %26 %3B`, the unquoter returns exactly `t` -/
theorem C06_qs_decodes_utf8 (b : Backend) (s t : Str) (hs : PyStr s) (hsn : NoSurrogate s)
    (ht : PyStr t) (htn : NoSurrogate t) (h : pctDecodeQs s = utf8s t)
    (hk : ∀ v ∈ escapeBytes s, keepQsDelims v = false) :     -- needed: C06_qs_decodes_utf8_needs_no_kept
    Gen.QS_UNQUOTER.run b s = t := by
  rw [(C06_qs_path_safe_reduce_to_unquoter b s).1 hk]
  exact (C06_decodes_utf8 b _ t (QsMore.pts_pyStr hs) (QsMore.pts_noSurr hsn) ht htn
    (by rw [QsMore.pctDecode_pts]; exact h)).1

/-- ITEM 2, valid UTF-8, PATH_SAFE_UNQUOTER (`path_safe`) -/
theorem C06_path_safe_decodes_utf8 (b : Backend) (s t : Str) (hs : PyStr s) (hsn : NoSurrogate s)
    (ht : PyStr t) (htn : NoSurrogate t) (h : pctDecode s = utf8s t)
    (hk : ∀ v ∈ escapeBytes s, keepSlashPercent v = false) :  -- needed: C06_qs_decodes_utf8_needs_no_kept
    Gen.PATH_SAFE_UNQUOTER.run b s = t := by
  rw [(C06_qs_path_safe_reduce_to_unquoter b s).2 hk]
  exact (C06_decodes_utf8 b s t hs hsn ht htn h).1

/-- the guards `hk` are needed: "a%3Db" form-decodes to the bytes of "a=b" but `query_string` keeps "a%3Db";
    "a%2Fb" decodes to the bytes of "a/b" but `path_safe` keeps "a%2Fb" -/
theorem C06_qs_decodes_utf8_needs_no_kept (b : Backend) :
    pctDecodeQs "a%3Db".toStr = utf8s "a=b".toStr ∧ Gen.QS_UNQUOTER.run b "a%3Db".toStr = "a%3Db".toStr ∧
    pctDecode "a%2Fb".toStr = utf8s "a/b".toStr ∧ Gen.PATH_SAFE_UNQUOTER.run b "a%2Fb".toStr = "a%2Fb".toStr := by
  refine ⟨by decide +kernel, ?_, by decide +kernel, ?_⟩ <;> cases b <;> decide +kernel

/-- accessor level -/
theorem C06_query_string_path_safe_decode_utf8 (e : Env) (u : Url) :
    (∀ t, PyStr u.query → NoSurrogate u.query → PyStr t → NoSurrogate t → pctDecodeQs u.query = utf8s t →
      (∀ v ∈ escapeBytes u.query, keepQsDelims v = false) → queryString e u = t) ∧
    (∀ t, u.path ≠ [] → PyStr u.path → NoSurrogate u.path → PyStr t → NoSurrogate t →
      pctDecode u.path = utf8s t → (∀ v ∈ escapeBytes u.path, keepSlashPercent v = false) →
      pathSafe e u = t) := by
  constructor
  · intro t h1 h2 h3 h4 h5 h6
    rw [C06_query_string_is_decoding, ← (C06_unquoter_is_pctUtf8 e.b u.query).2.2.2]
    exact C06_qs_decodes_utf8 e.b _ t h1 h2 h3 h4 h5 h6
  · intro t h0 h1 h2 h3 h4 h5 h6
    rw [C06_path_safe_is_decoding]
    have : u.path.isEmpty = false := by
      cases hp : u.path with
      | nil => exact absurd hp h0
      | cons _ _ => rfl
    simp only [this, Bool.false_eq_true, if_false]
    rw [← (C06_unquoter_is_pctUtf8 e.b u.path).2.2.1]
    exact C06_path_safe_decodes_utf8 e.b _ t h1 h2 h3 h4 h5 h6


/-! ## 3. malformed / undecodable escapes stay exactly as written, IN CONTEXT — theorems over the independent
    specification, for every `keep`, every '+' flag, every text before (`s1`) and after (`s2`) -/

/-- CONCATENATION: if `s2` starts neither with a hex digit (no escape reaches from `s1` into `s2`) nor with the escape
    of a UTF-8 continuation byte (no sequence reaches from `s1` into `s2`), the two parts decode independently -/
theorem C06_pct_append (keep : Nat → Bool) (plus : Bool) (s1 s2 : Str)
    (h2 : ∀ c, s2.head? = some c → hexValue c = none)
    (hc : ∀ d1 d2 r v, s2 = 37 :: d1 :: d2 :: r → restoreCh d1 d2 = some v → isCont v = false) :
    pctUtf8Decode keep plus (s1 ++ s2) = pctUtf8Decode keep plus s1 ++ pctUtf8Decode keep plus s2 :=
  pctUtf8Decode_append keep plus s2 h2 (noContStart_head hc) s1.length s1 (Nat.le_refl _)

/-- MALFORMED: a '%' that is not followed by two hex digits is literal, whatever precedes and follows -/
theorem C06_pct_malformed_verbatim (keep : Nat → Bool) (plus : Bool) (s1 s2 : Str)
    (h : ¬ StartsEscape (37 :: s2)) :
    pctUtf8Decode keep plus (s1 ++ 37 :: s2) = pctUtf8Decode keep plus s1 ++ 37 :: pctUtf8Decode keep plus s2 := by
  have := pct_ctx_plain keep plus 37 (by decide) s1 s2 h
  simpa using this

/-- '+' is a space iff `plusIsSpace`, whatever precedes and follows -/
theorem C06_pct_plus (keep : Nat → Bool) (plus : Bool) (s1 s2 : Str) :
    pctUtf8Decode keep plus (s1 ++ 43 :: s2) =
      pctUtf8Decode keep plus s1 ++ (if plus = true then 32 else 43) :: pctUtf8Decode keep plus s2 := by
  have := pct_ctx_plain keep plus 43 (by decide) s1 s2
    (by rintro ⟨d1, d2, r, v, he, _⟩; injection he with h _; cases h)
  simpa using this

/-- WELL-FORMED: escapes (in either hex case) whose bytes are the UTF-8 encoding of a code point `c` decode to `c` —
    to its upper-case percent-encoding when `keep c` — whatever precedes and follows -/
theorem C06_pct_valid_sequence (keep : Nat → Bool) (plus : Bool) (c : Nat) (hc : c ≤ 0x10FFFF)
    (hs : isSurrogate c = false) (es : List (Nat × Str)) (hes : ∀ e ∈ es, EscOK e)
    (hb : runBytes es = utf8 c) (s1 s2 : Str) :
    pctUtf8Decode keep plus (s1 ++ runText es ++ s2) =
      pctUtf8Decode keep plus s1 ++ (if keep c = true then pctEncode c else [c]) ++ pctUtf8Decode keep plus s2 := by
  have hpos := utf8_length_pos c hc hs
  have hlen : es.length = (utf8 c).length := by rw [← hb]; simp
  match es, hes, hb, hlen with
  | [], _, _, hlen => simp at hlen; omega
  | e :: es', hes, hb, hlen =>
    apply pct_ctx keep plus (e :: es') hes (by simp)
    · intro x hx
      simp only [List.head?_cons, Option.some.injEq] at hx
      subst hx
      obtain ⟨y, r, hy, hn⟩ := utf8_head_not_cont c hc hs
      rw [← hb] at hy
      simp only [runBytes, List.map_cons, List.cons.injEq] at hy
      rw [← hy.1] at hn
      cases hcx : isCont e.1 with
      | false => rfl
      | true => exact absurd (isCont_iff.mp hcx) hn
    · have hh : utf8Head (runBytes (e :: (es' ++ (escapeRun s2).1))) = some (c, (e :: es').length) := by
        have : runBytes (e :: (es' ++ (escapeRun s2).1)) = utf8 c ++ runBytes (escapeRun s2).1 := by
          rw [← hb]; simp [runBytes]
        rw [this, utf8Head_prefix c hc hs, hlen]
      rw [List.cons_append, decodeEscapes_some keep e _ c _ hh, ← List.cons_append,
        List.drop_append_of_le_length (Nat.le_refl _), List.drop_length, List.nil_append]

/-- in particular an escaped ASCII character, in either hex case: `%2F`, `%2f`, `%2B`, … -/
theorem C06_pct_ascii_escape (keep : Nat → Bool) (plus : Bool) (c d1 d2 : Nat) (hc : c < 128)
    (hv : restoreCh d1 d2 = some c) (s1 s2 : Str) :
    pctUtf8Decode keep plus (s1 ++ [37, d1, d2] ++ s2) =
      pctUtf8Decode keep plus s1 ++ (if keep c = true then pctEncode c else [c]) ++ pctUtf8Decode keep plus s2 := by
  have := C06_pct_valid_sequence keep plus c (by omega) (by simp [isSurrogate]; omega) [(c, [37, d1, d2])]
    (by intro e he; simp only [List.mem_singleton] at he; subst he; exact ⟨d1, d2, rfl, hv⟩)
    (by rw [Readback.utf8_1 c hc]; rfl) s1 s2
  simpa [runText] using this

/-- UNDECODABLE (1): escapes of bytes that can start no UTF-8 sequence — the first one not a continuation byte, so
    that it cannot complete a sequence begun in `s1`: `C0`, `C1`, `F5`…`FF`, each possibly followed by further such
    bytes or continuation bytes (`%FF`, overlong `%C0%AF`, …) — stay exactly as written -/
theorem C06_pct_invalid_verbatim (keep : Nat → Bool) (plus : Bool) (es : List (Nat × Str))
    (hes : ∀ e ∈ es, EscOK e) (hne : es ≠ [])
    (hbad : ∀ e ∈ es, (0x80 ≤ e.1 ∧ e.1 < 0xC2) ∨ 0xF5 ≤ e.1)
    (hhead : ∀ e, es.head? = some e → isCont e.1 = false) (s1 s2 : Str) :
    pctUtf8Decode keep plus (s1 ++ runText es ++ s2) =
      pctUtf8Decode keep plus s1 ++ runText es ++ pctUtf8Decode keep plus s2 :=
  pct_ctx keep plus es hes hne hhead _ s1 s2 (decodeEscapes_badLead keep es hbad _)

/-- UNDECODABLE (2), truncated: escapes whose bytes are a proper non-empty prefix of the encoding of a code point,
    followed by the end of the string or by anything but the escape of a continuation byte, stay exactly as written -/
theorem C06_pct_truncated_verbatim (keep : Nat → Bool) (plus : Bool) (c : Nat) (hc : c ≤ 0x10FFFF)
    (hs : isSurrogate c = false) (k : Nat) (hk0 : 0 < k) (hk : k < (utf8 c).length) (es : List (Nat × Str))
    (hes : ∀ e ∈ es, EscOK e) (hb : runBytes es = (utf8 c).take k) (s1 s2 : Str)
    (h2 : ∀ d1 d2 r v, s2 = 37 :: d1 :: d2 :: r → restoreCh d1 d2 = some v → isCont v = false) :
    pctUtf8Decode keep plus (s1 ++ runText es ++ s2) =
      pctUtf8Decode keep plus s1 ++ runText es ++ pctUtf8Decode keep plus s2 := by
  have hl : es.length = k := by
    have := congrArg List.length hb
    simp only [List.length_map, List.length_take] at this
    omega
  have hp : Pending es := by
    intro n hn
    rw [hb, List.take_take, Nat.min_eq_left (by omega)]
    exact decodeBuf_utf8_prefix c hc hs (n + 1) (by omega) (by omega)
  have hne : es ≠ [] := by intro h; subst h; simp at hl; omega
  apply pct_ctx keep plus es hes hne
  · intro x hx
    obtain ⟨y, r, hy, hn⟩ := utf8_head_not_cont c hc hs
    match es, hx, hb with
    | e :: es', hx, hb =>
      simp only [List.head?_cons, Option.some.injEq] at hx
      subst hx
      obtain ⟨k', rfl⟩ : ∃ k', k = k' + 1 := ⟨k - 1, by omega⟩
      rw [hy] at hb
      simp only [runBytes, List.map_cons, List.take_succ_cons, List.cons.injEq] at hb
      rw [← hb.1] at hn
      cases hcx : isCont e.1 with
      | false => rfl
      | true => exact absurd (isCont_iff.mp hcx) hn
  · rw [decodeEscapes_append keep _ (noContStart_head h2) _ es (Nat.le_refl _)]
    congr 1
    have := decodeEscapes_pending keep hp [] (fun _ => by rw [List.append_nil]; exact utf8Head_pending hp)
    rw [List.append_nil, decodeEscapes_nil, List.append_nil] at this
    exact this

/-- UNDECODABLE (3), surrogates: the bytes `ED A0 80` (U+D800 in "UTF-8 shape"; any hex case) stay as written -/
theorem C06_pct_surrogate_verbatim (keep : Nat → Bool) (plus : Bool) (t1 t2 t3 : Str)
    (h1 : EscOK (0xED, t1)) (h2 : EscOK (0xA0, t2)) (h3 : EscOK (0x80, t3)) (s1 s2 : Str) :
    pctUtf8Decode keep plus (s1 ++ (t1 ++ t2 ++ t3) ++ s2) =
      pctUtf8Decode keep plus s1 ++ (t1 ++ t2 ++ t3) ++ pctUtf8Decode keep plus s2 := by
  have := pct_ctx keep plus [(0xED, t1), (0xA0, t2), (0x80, t3)]
    (by intro e he; simp only [List.mem_cons, List.not_mem_nil, or_false] at he
        rcases he with rfl | rfl | rfl <;> assumption)
    (by simp) (by intro e he; simp only [List.head?_cons, Option.some.injEq] at he; subst he; rfl)
    (t1 ++ t2 ++ t3) s1 s2
    (by
      have hh : utf8Head (runBytes ((0xED, t1) :: ([(0xA0, t2), (0x80, t3)] ++ (escapeRun s2).1))) = none :=
        utf8Head_ED_A0_80 (runBytes (escapeRun s2).1)
      rw [List.cons_append, decodeEscapes_none keep (0xED, t1) _ hh,
        decodeEscapes_badLead keep [(0xA0, t2), (0x80, t3)]
          (by intro e he; simp only [List.mem_cons, List.not_mem_nil, or_false] at he
              rcases he with rfl | rfl <;> exact Or.inl ⟨by simp, by simp⟩) _]
      simp [runText])
  simpa [runText] using this

/-- ITEM 3, the seven textbook cases, each for EVERY `keep`, '+' flag, and text before and after:
    `%zz`; `%4` (not followed by a hex digit); a trailing `%`; `%FF`; truncated `%E2%82` (not followed by the escape of a
    continuation byte — e.g. at the end of the string or before any non-escape); overlong `%C0%AF`; surrogate bytes
    `%ED%A0%80` — stay exactly as written, and `s1`, `s2` are decoded as they are on their own -/
theorem C06_pct_malformed_examples (keep : Nat → Bool) (plus : Bool) (s1 s2 : Str) :
    pctUtf8Decode keep plus (s1 ++ "%zz".toStr ++ s2) =
      pctUtf8Decode keep plus s1 ++ "%zz".toStr ++ pctUtf8Decode keep plus s2 ∧
    ((∀ c, s2.head? = some c → hexValue c = none) →
      pctUtf8Decode keep plus (s1 ++ "%4".toStr ++ s2) =
        pctUtf8Decode keep plus s1 ++ "%4".toStr ++ pctUtf8Decode keep plus s2) ∧
    pctUtf8Decode keep plus (s1 ++ "%".toStr) = pctUtf8Decode keep plus s1 ++ "%".toStr ∧
    pctUtf8Decode keep plus (s1 ++ "%FF".toStr ++ s2) =
      pctUtf8Decode keep plus s1 ++ "%FF".toStr ++ pctUtf8Decode keep plus s2 ∧
    ((∀ d1 d2 r v, s2 = 37 :: d1 :: d2 :: r → restoreCh d1 d2 = some v → isCont v = false) →
      pctUtf8Decode keep plus (s1 ++ "%E2%82".toStr ++ s2) =
        pctUtf8Decode keep plus s1 ++ "%E2%82".toStr ++ pctUtf8Decode keep plus s2) ∧
    pctUtf8Decode keep plus (s1 ++ "%C0%AF".toStr ++ s2) =
      pctUtf8Decode keep plus s1 ++ "%C0%AF".toStr ++ pctUtf8Decode keep plus s2 ∧
    pctUtf8Decode keep plus (s1 ++ "%ED%A0%80".toStr ++ s2) =
      pctUtf8Decode keep plus s1 ++ "%ED%A0%80".toStr ++ pctUtf8Decode keep plus s2 := by
  have hz : ∀ r, ¬ StartsEscape (122 :: r) := by
    rintro r ⟨d1, d2, r', v, he, _⟩; injection he with h _; cases h
  refine ⟨?_, ?_, ?_, ?_, ?_, ?_, ?_⟩
  · have e1 : s1 ++ "%zz".toStr ++ s2 = s1 ++ 37 :: (122 :: 122 :: s2) := by simp [String.toStr]
    rw [e1, C06_pct_malformed_verbatim keep plus s1 _ (not_startsEscape_of_restoreCh_none (by decide)),
      pctUtf8Decode_noesc keep plus 122 _ (hz _), pctUtf8Decode_noesc keep plus 122 _ (hz _)]
    simp [String.toStr]
  · intro h
    have e1 : s1 ++ "%4".toStr ++ s2 = s1 ++ 37 :: (52 :: s2) := by simp [String.toStr]
    have hns : ¬ StartsEscape (37 :: 52 :: s2) := by
      rintro ⟨d1, d2, r, v, he, hv⟩
      injection he with _ he; injection he with h1 he
      subst h1
      obtain ⟨a, b, _, hb, _⟩ := hexValue_of_restoreCh hv
      rw [h d2 (by rw [he]; rfl)] at hb; cases hb
    have h4 : ¬ StartsEscape (52 :: s2) := by
      rintro ⟨d1, d2, r', v, he, _⟩; injection he with h _; cases h
    rw [e1, C06_pct_malformed_verbatim keep plus s1 _ hns, pctUtf8Decode_noesc keep plus 52 _ h4]
    simp [String.toStr]
  · have e1 : s1 ++ "%".toStr = s1 ++ 37 :: [] := by simp [String.toStr]
    rw [e1, C06_pct_malformed_verbatim keep plus s1 []
      (by rintro ⟨d1, d2, r, v, he, _⟩; injection he with _ he; cases he), pctUtf8Decode_nil]
    simp [String.toStr]
  · have := C06_pct_invalid_verbatim keep plus [(0xFF, "%FF".toStr)]
      (by intro e he; simp only [List.mem_singleton] at he; subst he; exact ⟨_, _, rfl, by decide⟩)
      (by simp) (by decide) (by intro e he; simp only [List.head?_cons, Option.some.injEq] at he; subst he; decide)
      s1 s2
    simpa [runText] using this
  · intro h
    have := C06_pct_truncated_verbatim keep plus 0x20AC (by decide) (by decide) 2 (by decide) (by decide)
      [(0xE2, "%E2".toStr), (0x82, "%82".toStr)]
      (by intro e he; simp only [List.mem_cons, List.not_mem_nil, or_false] at he
          rcases he with rfl | rfl <;> exact ⟨_, _, rfl, by decide⟩)
      (by decide) s1 s2 h
    simpa [runText, String.toStr] using this
  · have := C06_pct_invalid_verbatim keep plus [(0xC0, "%C0".toStr), (0xAF, "%AF".toStr)]
      (by intro e he; simp only [List.mem_cons, List.not_mem_nil, or_false] at he
          rcases he with rfl | rfl <;> exact ⟨_, _, rfl, by decide⟩)
      (by simp) (by decide) (by intro e he; simp only [List.head?_cons, Option.some.injEq] at he; subst he; decide)
      s1 s2
    simpa [runText, String.toStr] using this
  · have := C06_pct_surrogate_verbatim keep plus "%ED".toStr "%A0".toStr "%80".toStr
      ⟨_, _, rfl, by decide⟩ ⟨_, _, rfl, by decide⟩ ⟨_, _, rfl, by decide⟩ s1 s2
    simpa [String.toStr] using this


/-! ## the keep sets seen on the unquoters themselves, in context -/

/-- ITEM 1, explicit consequences on the four generated unquoters (both backends; `s1`, `s2` arbitrary; escapes in
    either hex case as written):
    * PATH_SAFE_UNQUOTER: `%2F` → `%2F`, `%2f` → `%2F` (re-quoted, upper case), `%25` → `%25`, `%2B` → '+', '+' → '+';
    * PATH_UNQUOTER: '+' → '+', `%2B` → '+', `%2F` → '/', `%25` → '%';
    * QS_UNQUOTER: '+' → ' ', `%2B` → `%2B`, `%26` → `%26`, `%3D` → `%3D`, `%3d` → `%3D`, `%3B` → `%3B`, `%20` → ' ',
      `%2F` → '/';
    * UNQUOTER: '+' → '+', `%2B` → '+', `%26` → '&'. -/
theorem C06_unquoter_keep_examples (b : Backend) (s1 s2 : Str) :
    (Gen.PATH_SAFE_UNQUOTER.run b (s1 ++ "%2F".toStr ++ s2) =
      Gen.PATH_SAFE_UNQUOTER.run b s1 ++ "%2F".toStr ++ Gen.PATH_SAFE_UNQUOTER.run b s2 ∧
     Gen.PATH_SAFE_UNQUOTER.run b (s1 ++ "%2f".toStr ++ s2) =
      Gen.PATH_SAFE_UNQUOTER.run b s1 ++ "%2F".toStr ++ Gen.PATH_SAFE_UNQUOTER.run b s2 ∧
     Gen.PATH_SAFE_UNQUOTER.run b (s1 ++ "%25".toStr ++ s2) =
      Gen.PATH_SAFE_UNQUOTER.run b s1 ++ "%25".toStr ++ Gen.PATH_SAFE_UNQUOTER.run b s2 ∧
     Gen.PATH_SAFE_UNQUOTER.run b (s1 ++ "%2B".toStr ++ s2) =
      Gen.PATH_SAFE_UNQUOTER.run b s1 ++ "+".toStr ++ Gen.PATH_SAFE_UNQUOTER.run b s2 ∧
     Gen.PATH_SAFE_UNQUOTER.run b (s1 ++ "+".toStr ++ s2) =
      Gen.PATH_SAFE_UNQUOTER.run b s1 ++ "+".toStr ++ Gen.PATH_SAFE_UNQUOTER.run b s2) ∧
    (Gen.PATH_UNQUOTER.run b (s1 ++ "+".toStr ++ s2) =
      Gen.PATH_UNQUOTER.run b s1 ++ "+".toStr ++ Gen.PATH_UNQUOTER.run b s2 ∧
     Gen.PATH_UNQUOTER.run b (s1 ++ "%2B".toStr ++ s2) =
      Gen.PATH_UNQUOTER.run b s1 ++ "+".toStr ++ Gen.PATH_UNQUOTER.run b s2 ∧
     Gen.PATH_UNQUOTER.run b (s1 ++ "%2F".toStr ++ s2) =
      Gen.PATH_UNQUOTER.run b s1 ++ "/".toStr ++ Gen.PATH_UNQUOTER.run b s2 ∧
     Gen.PATH_UNQUOTER.run b (s1 ++ "%25".toStr ++ s2) =
      Gen.PATH_UNQUOTER.run b s1 ++ "%".toStr ++ Gen.PATH_UNQUOTER.run b s2) ∧
    (Gen.QS_UNQUOTER.run b (s1 ++ "+".toStr ++ s2) =
      Gen.QS_UNQUOTER.run b s1 ++ " ".toStr ++ Gen.QS_UNQUOTER.run b s2 ∧
     Gen.QS_UNQUOTER.run b (s1 ++ "%2B".toStr ++ s2) =
      Gen.QS_UNQUOTER.run b s1 ++ "%2B".toStr ++ Gen.QS_UNQUOTER.run b s2 ∧
     Gen.QS_UNQUOTER.run b (s1 ++ "%26".toStr ++ s2) =
      Gen.QS_UNQUOTER.run b s1 ++ "%26".toStr ++ Gen.QS_UNQUOTER.run b s2 ∧
     Gen.QS_UNQUOTER.run b (s1 ++ "%3D".toStr ++ s2) =
      Gen.QS_UNQUOTER.run b s1 ++ "%3D".toStr ++ Gen.QS_UNQUOTER.run b s2 ∧
     Gen.QS_UNQUOTER.run b (s1 ++ "%3d".toStr ++ s2) =
      Gen.QS_UNQUOTER.run b s1 ++ "%3D".toStr ++ Gen.QS_UNQUOTER.run b s2 ∧
     Gen.QS_UNQUOTER.run b (s1 ++ "%3B".toStr ++ s2) =
      Gen.QS_UNQUOTER.run b s1 ++ "%3B".toStr ++ Gen.QS_UNQUOTER.run b s2 ∧
     Gen.QS_UNQUOTER.run b (s1 ++ "%20".toStr ++ s2) =
      Gen.QS_UNQUOTER.run b s1 ++ " ".toStr ++ Gen.QS_UNQUOTER.run b s2 ∧
     Gen.QS_UNQUOTER.run b (s1 ++ "%2F".toStr ++ s2) =
      Gen.QS_UNQUOTER.run b s1 ++ "/".toStr ++ Gen.QS_UNQUOTER.run b s2) ∧
    (Gen.UNQUOTER.run b (s1 ++ "+".toStr ++ s2) =
      Gen.UNQUOTER.run b s1 ++ "+".toStr ++ Gen.UNQUOTER.run b s2 ∧
     Gen.UNQUOTER.run b (s1 ++ "%2B".toStr ++ s2) =
      Gen.UNQUOTER.run b s1 ++ "+".toStr ++ Gen.UNQUOTER.run b s2 ∧
     Gen.UNQUOTER.run b (s1 ++ "%26".toStr ++ s2) =
      Gen.UNQUOTER.run b s1 ++ "&".toStr ++ Gen.UNQUOTER.run b s2) := by
  have hU : Gen.UNQUOTER.run b = pctUtf8Decode keepNone false := funext fun s => (C06_unquoter_is_pctUtf8 b s).1
  have hP : Gen.PATH_UNQUOTER.run b = pctUtf8Decode keepNone false :=
    funext fun s => (C06_unquoter_is_pctUtf8 b s).2.1
  have hS : Gen.PATH_SAFE_UNQUOTER.run b = pctUtf8Decode keepSlashPercent false :=
    funext fun s => (C06_unquoter_is_pctUtf8 b s).2.2.1
  have hQ : Gen.QS_UNQUOTER.run b = pctUtf8Decode keepQsDelims true :=
    funext fun s => (C06_unquoter_is_pctUtf8 b s).2.2.2
  have esc := fun (keep : Nat → Bool) (plus : Bool) (c d1 d2 : Nat) (hc : c < 128)
      (hv : restoreCh d1 d2 = some c) => C06_pct_ascii_escape keep plus c d1 d2 hc hv s1 s2
  have plus := fun (keep : Nat → Bool) (plus : Bool) => by
    have := C06_pct_plus keep plus s1 s2
    rw [← List.singleton_append, ← List.append_assoc, ← List.singleton_append (l := pctUtf8Decode keep plus s2),
      ← List.append_assoc] at this
    exact this
  rw [hU, hP, hS, hQ]
  refine ⟨⟨?_, ?_, ?_, ?_, ?_⟩, ⟨?_, ?_, ?_, ?_⟩, ⟨?_, ?_, ?_, ?_, ?_, ?_, ?_, ?_⟩, ⟨?_, ?_, ?_⟩⟩
  · exact esc keepSlashPercent false 0x2F 50 70 (by decide) (by decide)
  · exact esc keepSlashPercent false 0x2F 50 102 (by decide) (by decide)
  · exact esc keepSlashPercent false 0x25 50 53 (by decide) (by decide)
  · exact esc keepSlashPercent false 0x2B 50 66 (by decide) (by decide)
  · exact plus keepSlashPercent false
  · exact plus keepNone false
  · exact esc keepNone false 0x2B 50 66 (by decide) (by decide)
  · exact esc keepNone false 0x2F 50 70 (by decide) (by decide)
  · exact esc keepNone false 0x25 50 53 (by decide) (by decide)
  · exact plus keepQsDelims true
  · exact esc keepQsDelims true 0x2B 50 66 (by decide) (by decide)
  · exact esc keepQsDelims true 0x26 50 54 (by decide) (by decide)
  · exact esc keepQsDelims true 0x3D 51 68 (by decide) (by decide)
  · exact esc keepQsDelims true 0x3D 51 100 (by decide) (by decide)
  · exact esc keepQsDelims true 0x3B 51 66 (by decide) (by decide)
  · exact esc keepQsDelims true 0x20 50 48 (by decide) (by decide)
  · exact esc keepQsDelims true 0x2F 50 70 (by decide) (by decide)
  · exact plus keepNone false
  · exact esc keepNone false 0x2B 50 66 (by decide) (by decide)
  · exact esc keepNone false 0x26 50 54 (by decide) (by decide)

/-! ## examples and non-vacuity -/

/-- `utf8Head` on the textbook cases: a well-formed 3-byte sequence (followed by anything); overlong `C0 AF`; surrogate
    `ED A0 80`; above U+10FFFF `F4 90 80 80`; truncated `E2 82`; a stray continuation byte; overlong `E0 9F BF`;
    the largest and smallest 4-byte sequences -/
example : utf8Head [0xE2, 0x82, 0xAC, 0x41] = some (0x20AC, 3) ∧ utf8Head [0xC0, 0xAF] = none ∧
    utf8Head [0xED, 0xA0, 0x80] = none ∧ utf8Head [0xF4, 0x90, 0x80, 0x80] = none ∧ utf8Head [0xE2, 0x82] = none ∧
    utf8Head [0x80] = none ∧ utf8Head [0xE0, 0x9F, 0xBF] = none ∧
    utf8Head [0xF4, 0x8F, 0xBF, 0xBF] = some (0x10FFFF, 4) ∧ utf8Head [0xF0, 0x90, 0x80, 0x80] = some (0x10000, 4) ∧
    utf8Head [0xED, 0x9F, 0xBF] = some (0xD7FF, 3) ∧ utf8Head [0x41, 0xFF] = some (0x41, 1) := by decide

/-- the maximal run of escapes, with the text as written -/
example : escapeRun "%c3%A9%zz".toStr = ([(0xC3, "%c3".toStr), (0xA9, "%A9".toStr)], "%zz".toStr) ∧
    escapeRun "%4%41".toStr = ([], "%4%41".toStr) ∧ escapeRun "x%41".toStr = ([], "x%41".toStr) := by decide

/-- the specification computed on one string with every case in it, for the four configurations -/
example :
    pctUtf8Decode keepNone false "a+%C3%a9%zz%4%2f%25%41%2B%FF%E2%82%C0%AF%ED%A0%80%E2%82%ACx%".toStr =
      "a+".toStr ++ [233] ++ "%zz%4/%A+%FF%E2%82%C0%AF%ED%A0%80".toStr ++ [0x20AC] ++ "x%".toStr ∧
    pctUtf8Decode keepSlashPercent false "a+%C3%a9%zz%4%2f%25%41%2B%FF%E2%82%C0%AF%ED%A0%80%E2%82%ACx%".toStr =
      "a+".toStr ++ [233] ++ "%zz%4%2F%25A+%FF%E2%82%C0%AF%ED%A0%80".toStr ++ [0x20AC] ++ "x%".toStr ∧
    pctUtf8Decode keepQsDelims true "a+%C3%a9%zz%4%2f%25%41%2B%3d%FF%E2%82%C0%AF%ED%A0%80%E2%82%ACx%".toStr =
      "a ".toStr ++ [233] ++ "%zz%4/%A%2B%3D%FF%E2%82%C0%AF%ED%A0%80".toStr ++ [0x20AC] ++ "x%".toStr := by
  decide +kernel

/-- the main theorem on that string, both sides computed, both backends -/
example : ∀ b : Backend,
    Gen.QS_UNQUOTER.run b "a+%C3%a9%zz%4%2f%25%41%2B%3d%FF%E2%82%C0%AF%ED%A0%80%E2%82%ACx%".toStr =
      pctUtf8Decode keepQsDelims true "a+%C3%a9%zz%4%2f%25%41%2B%3d%FF%E2%82%C0%AF%ED%A0%80%E2%82%ACx%".toStr ∧
    Gen.PATH_SAFE_UNQUOTER.run b "/a%2fb%25%E2%82".toStr = pctUtf8Decode keepSlashPercent false "/a%2fb%25%E2%82".toStr := by
  intro b; cases b <;> decide +kernel

/-- `escapeBytes` -/
example : escapeBytes "a%20b%c3%A9%zz%4%".toStr = [0x20, 0xC3, 0xA9] ∧ escapeBytes "%%41".toStr = [0x41] := by
  decide +kernel

/-- hypotheses of `C06_qs_decodes_utf8` / `C06_path_safe_decodes_utf8` / `C06_pct_keep_irrelevant` are satisfiable by
    non-trivial inputs ("a+b%C3%A9%20c" ↦ "a bé c"; "/a%20b/%E2%82%AC+" ↦ "/a b/€+"), and the conclusions computed -/
example : PyStr "a+b%C3%A9%20c".toStr ∧ NoSurrogate "a+b%C3%A9%20c".toStr ∧
    PyStr ("a b".toStr ++ [233] ++ " c".toStr) ∧ NoSurrogate ("a b".toStr ++ [233] ++ " c".toStr) ∧
    pctDecodeQs "a+b%C3%A9%20c".toStr = utf8s ("a b".toStr ++ [233] ++ " c".toStr) ∧
    (∀ v ∈ escapeBytes "a+b%C3%A9%20c".toStr, keepQsDelims v = false) ∧
    (∀ c, keepQsDelims c = true → c < 128) := by
  refine ⟨by decide, by decide, by decide, by decide, by decide +kernel, by decide +kernel, ?_⟩
  intro c hc; simp only [keepQsDelims, Bool.or_eq_true, beq_iff_eq] at hc; omega
example : PyStr "/a%20b/%E2%82%AC+".toStr ∧ NoSurrogate "/a%20b/%E2%82%AC+".toStr ∧
    pctDecode "/a%20b/%E2%82%AC+".toStr = utf8s ("/a b/".toStr ++ [0x20AC] ++ "+".toStr) ∧
    (∀ v ∈ escapeBytes "/a%20b/%E2%82%AC+".toStr, keepSlashPercent v = false) := by
  refine ⟨by decide, by decide, by decide +kernel, by decide +kernel⟩
example (b : Backend) : Gen.QS_UNQUOTER.run b "a+b%C3%A9%20c".toStr = "a b".toStr ++ [233] ++ " c".toStr :=
  C06_qs_decodes_utf8 b _ _ (by decide) (by decide) (by decide) (by decide) (by decide +kernel) (by decide +kernel)
example (b : Backend) :
    Gen.PATH_SAFE_UNQUOTER.run b "/a%20b/%E2%82%AC+".toStr = "/a b/".toStr ++ [0x20AC] ++ "+".toStr :=
  C06_path_safe_decodes_utf8 b _ _ (by decide) (by decide) (by decide) (by decide) (by decide +kernel)
    (by decide +kernel)

/-- accessor level, on a URL record -/
example (e : Env) :
    queryString e (fromParts "http".toStr "h".toStr "/a%20b".toStr "k=v+w%C3%A9".toStr []) =
      "k=v w".toStr ++ [233] ∧
    pathSafe e (fromParts "http".toStr "h".toStr "/a%20b".toStr "k=v+w%C3%A9".toStr []) = "/a b".toStr := by
  constructor
  · exact (C06_query_string_path_safe_decode_utf8 e _).1 _ (by decide) (by decide) (by decide) (by decide)
      (by decide +kernel) (by decide +kernel)
  · exact (C06_query_string_path_safe_decode_utf8 e _).2 _ (by decide) (by decide) (by decide) (by decide)
      (by decide) (by decide +kernel) (by decide +kernel)

/-- hypotheses of the in-context theorems: escapes as written in either case; a text that may follow a truncated
    sequence / `%4`; a text that may not -/
example : EscOK (0xE2, "%e2".toStr) ∧ EscOK (0x82, "%82".toStr) ∧ EscOK (0xAC, "%aC".toStr) ∧
    EscOK (0xED, "%eD".toStr) ∧ EscOK (0xC0, "%c0".toStr) ∧
    runBytes [(0xE2, "%e2".toStr), (0x82, "%82".toStr), (0xAC, "%aC".toStr)] = utf8 0x20AC ∧
    runBytes [(0xF0, "%F0".toStr), (0x9F, "%9f".toStr), (0x98, "%98".toStr)] = (utf8 0x1F600).take 3 :=
  ⟨⟨_, _, rfl, by decide⟩, ⟨_, _, rfl, by decide⟩, ⟨_, _, rfl, by decide⟩, ⟨_, _, rfl, by decide⟩,
   ⟨_, _, rfl, by decide⟩, by decide, by decide⟩
example : (∀ c, "x%80".toStr.head? = some c → hexValue c = none) ∧
    (∀ d1 d2 r v, "%41%80".toStr = 37 :: d1 :: d2 :: r → restoreCh d1 d2 = some v → isCont v = false) ∧
    ¬ (∀ d1 d2 r v, "%80".toStr = 37 :: d1 :: d2 :: r → restoreCh d1 d2 = some v → isCont v = false) := by
  refine ⟨?_, ?_, ?_⟩
  · intro c hc; cases hc; decide
  · intro d1 d2 r v he hv
    rw [show "%41%80".toStr = [37, 52, 49, 37, 56, 48] from by decide] at he
    injection he with _ he; injection he with h1 he; injection he with h2 _
    subst h1; subst h2
    have : restoreCh 52 49 = some 0x41 := by decide
    rw [this] at hv; cases hv; decide
  · intro h
    exact absurd (h 56 48 [] 0x80 (by decide) (by decide)) (by decide)
/-- the side condition of the truncated case is needed: `%E2%82` followed by `%AC` is a complete sequence -/
example : pctUtf8Decode keepNone false ("%E2%82".toStr ++ "%AC".toStr) = [0x20AC] ∧
    pctUtf8Decode keepNone false "%E2%82".toStr ++ pctUtf8Decode keepNone false "%AC".toStr = "%E2%82%AC".toStr := by
  decide +kernel
/-- the seven cases of `C06_pct_malformed_examples` in one concrete context, computed -/
example : pctUtf8Decode keepQsDelims true "%C3%A9+%zz=%4&%FF;%E2%82/%C0%AF%41%ED%A0%80%C3%A9%".toStr =
    [233] ++ " %zz=%4&%FF;%E2%82/%C0%AFA%ED%A0%80".toStr ++ [233] ++ "%".toStr := by decide +kernel


end Yarl
