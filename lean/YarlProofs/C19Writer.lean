/-
  C19 (allocation-failure clause): the compiled quoter's output buffer, for EVERY
  buffer size, every fault oracle and every input — restated from
  Lemmas/WriterLemmas.lean under property names.
-/
import YarlProofs.Lemmas.WriterLemmas
namespace Yarl.Writer

/-- a call either returns exactly the bytes written or raises MemoryError: never a truncated or corrupted result -/
theorem C19_writer_faults (n : Nat) (hn : 0 < n) (faults : Nat → Bool) (cs : List Nat) :
    (run n faults cs).1 = .ok cs ∨ (run n faults cs).1 = .error .memoryError := run_faults n hn faults cs

/-- no leak, no double free, the static buffer is never freed -/
theorem C19_writer_release (n : Nat) (hn : 0 < n) (faults : Nat → Bool) (cs : List Nat) :
    (run n faults cs).2.live = [] ∧ (run n faults cs).2.freed.Nodup ∧
    (run n faults cs).2.staticFreed = false ∧ (run n faults cs).2.freed.length ≤ 1 := run_release n hn faults cs

/-- no write past the capacity of the current buffer -/
theorem C19_writer_capacity (n : Nat) (hn : 0 < n) (faults : Nat → Bool) (cs : List Nat) :
    let w := (writeAll n faults (init n) cs).1; w.data.length ≤ w.size := writeAll_capacity n hn faults cs

/-- an output that fits the static buffer never allocates, so no fault can matter -/
theorem C19_writer_small_never_fails (n : Nat) (faults : Nat → Bool) (cs : List Nat) (h : cs.length ≤ n) :
    (run n faults cs).1 = .ok cs := run_small_never_fails n faults cs h

/-- a failed call cannot influence a later one: every call starts from `init` -/
theorem C19_writer_after_failure (n : Nat) (hn : 0 < n) (f1 : Nat → Bool) (cs1 cs2 : List Nat) :
    (run n (fun _ => false) cs2).1 = .ok cs2 := run_after_failure n hn f1 cs1 cs2

/-- the buffer size extracted from the working tree's `.pyx` is positive (so the theorems above apply to it) -/
theorem C19_writer_bufsize_pos : 0 < Gen.bufSize := by decide

end Yarl.Writer
