import YarlModel.Str
import YarlModel.Utf8
import YarlModel.Quote
import YarlModel.Unquote
import YarlModel.Config
import YarlModel.Generated
import YarlModel.Tables
import YarlModel.Wire
