import YarlModel
open Yarl Yarl.Wire

def parseBackend : String → Option Backend
  | "py" => some .py
  | "c" => some .c
  | _ => none

def handle (fields : List String) : String :=
  match fields with
  | ["q", b, cfg, s] =>
    match parseBackend b, findQuoter cfg, decStr s with
    | some b, some a, some s => encStr (a.run b s)
    | _, _, _ => "!bad-op"
  | ["uq", b, cfg, s] =>
    match parseBackend b, findUnquoter cfg, decStr s with
    | some b, some a, some s => encStr (a.run b s)
    | _, _, _ => "!bad-op"
  | _ => "!bad-op"

partial def loop (h : IO.FS.Stream) (out : IO.FS.Stream) : IO Unit := do
  let line ← h.getLine
  if line.isEmpty then return ()
  let line := (line.dropEndWhile (fun c => c == '\n' || c == '\r')).toString
  out.putStrLn (handle (line.splitOn "\t"))
  loop h out

def main : IO Unit := do
  let stdin ← IO.getStdin
  let stdout ← IO.getStdout
  loop stdin stdout
