import YarlModel
import Std.Data.HashMap
open Yarl Yarl.Wire

/-! Line-protocol driver.  One op per stdin line (tab-separated fields), one
    result per stdout line.  See harness/worker.py / worker_url.py for the
    implementation side of the same protocol. -/

def parseBackend : String → Option Backend
  | "py" => some .py
  | "c" => some .c
  | _ => none

abbrev Tab := Std.HashMap (String × Str) String

structure St where
  urls : Array (Option Url) := #[]
  orc : Tab := {}

def lookupStr (t : Tab) (fn : String) (a : Str) : Option (Option Str) :=
  match t.get? (fn, a) with
  | none => none
  | some "!" => some none
  | some r => (decStr r).map some

def lookupBool (t : Tab) (fn : String) (a : Str) : Option Bool :=
  match t.get? (fn, a) with
  | some "T" => some true
  | some "F" => some false
  | _ => none

def lookupInt (t : Tab) (fn : String) (a : Str) : Option (Option Int) :=
  match t.get? (fn, a) with
  | none => none
  | some "!" => some none
  | some r => r.toInt?.map some

def mkOracles (t : Tab) : Oracles :=
  { nfkc := fun s => (lookupStr t "nfkc" s).bind id
    idnaEnc := lookupStr t "idnaEnc"
    idnaEncStd := lookupStr t "idnaEncStd"
    idnaDec := lookupStr t "idnaDec"
    idnaDecStd := lookupStr t "idnaDecStd"
    isDigitU := fun c => lookupBool t "isDigitU" [c]
    intU := lookupInt t "intU"
    isPrintableU := fun c => lookupBool t "isPrintableU" [c]
    lowerU := fun s => (lookupStr t "lowerU" s).bind id }

def encErr : PyErr → String
  | .valueError => "!V"
  | .typeError => "!T"
  | .memoryError => "!M"
  | .indexError => "!X:IndexError"
  | .keyError => "!X:KeyError"
  | .attributeError => "!X:AttributeError"
  | .unicodeError => "!V"
  | .oracleMiss fn a => "!O:" ++ fn ++ ":" ++ encStr a

def encR {α} (f : α → String) : R α → String
  | .ok a => f a
  | .error e => encErr e

def encOptNat : Option Nat → String
  | none => "~"
  | some n => "N" ++ toString n

def encList (l : List Str) : String := "L" ++ toString l.length ++ ":" ++ ",".intercalate (l.map encStr)
def encPairs (l : List (Str × Str)) : String :=
  "Q" ++ toString l.length ++ ":" ++ ",".intercalate (l.map (fun (k, v) => encStr k ++ "=" ++ encStr v))

/-! ### decoding query arguments -/

def decQVal (s : String) : Option QVal :=
  match s.toList with
  | 's' :: r => (decStr (String.ofList r)).map .str
  | 'i' :: r => (String.ofList r).toInt?.map .int
  | 'f' :: k :: ':' :: r => (decStr (String.ofList r)).map (fun t => .float t (k.toNat - 48))
  | ['b'] => some .bool
  | ['n'] => some .none
  | ['o'] => some .other
  | _ => none

def decQItem (s : String) : Option QItem :=
  if s.startsWith "[" && s.endsWith "]" then
    let inner := (s.drop 1).dropEnd 1 |>.toString
    if inner.isEmpty then some (.many [])
    else ((inner.splitOn "|").mapM decQVal).map .many
  else (decQVal s).map .one

def decItems (s : String) : Option (List (Str × QItem)) :=
  if s.isEmpty then some [] else
  (s.splitOn ";").mapM (fun it =>
    match it.splitOn "=" with
    | [k, v] => do pure (← decStr k, ← decQItem v)
    | _ => none)

def decQArg (s : String) : Option QArg :=
  match s.toList with
  | ['N'] => some .none
  | 'S' :: r => (decStr (String.ofList r)).map .str
  | 'M' :: r => (decItems (String.ofList r)).map .mapping
  | 'D' :: r => (decItems (String.ofList r)).map .mapping
  | 'K' :: r => if r.isEmpty then some .noArgs else (decItems (String.ofList r)).map .mapping
  | 'P' :: r => (decItems (String.ofList r)).map .pairs
  | 'U' :: r => (decItems (String.ofList r)).map .pairs
  | ['B', '0'] => some (.bytes true)
  | ['B', '1'] => some (.bytes false)
  | ['O'] => some .other
  | _ => none

/-- port argument: `~` None, `T` bool, `X` other type, otherwise a decimal int -/
def decPort (s : String) : Option (Option Int × Nat) :=
  if s = "~" then some (none, 0)
  else if s = "T" then some (none, 1)
  else if s = "X" then some (none, 2)
  else if s = "Z" then some (none, 1)            -- False
  else if s.startsWith "D" then some (none, 2)   -- a float
  else s.toInt?.map (fun n => (some n, 0))

def decBool (s : String) : Bool := s = "T"

def decBuildArgs (fields : List String) : Option BuildArgs :=
  fields.foldlM (fun (a : BuildArgs) f =>
    match f.splitOn "=" with
    | k :: rest =>
      let v := "=".intercalate rest
      match k with
      | "scheme" => (decStr v).map (fun s => { a with scheme := s })
      | "authority" => (decStr v).map (fun s => { a with authority := s })
      | "user" => (decOptStr v).map (fun s => { a with user := s })
      | "password" => (decOptStr v).map (fun s => { a with password := s })
      | "host" => (decStr v).map (fun s => { a with host := s })
      | "port" => (decPort v).map (fun (p, k) => { a with port := p, portKind := k })
      | "path" => (decStr v).map (fun s => { a with path := s })
      | "query" => (decQArg v).map (fun s => { a with query := s })
      | "query_string" => (decStr v).map (fun s => { a with queryString := s })
      | "fragment" => (decStr v).map (fun s => { a with fragment := s })
      | "encoded" => some { a with encoded := decBool v }
      | _ => none
    | _ => none) {}

def getUrl (st : St) (h : String) : Option Url :=
  match h.toNat? with
  | some i => (st.urls[i]?).bind id
  | none => none

def pushUrl (st : St) (r : R Url) : St × String :=
  match r with
  | .ok u => ({ st with urls := st.urls.push (some u) }, "#" ++ toString st.urls.size)
  | .error e => ({ st with urls := st.urls.push none }, encErr e)

def observe (e : Env) (u : Url) (nm : String) : String :=
  match nm with
  | "str" => encR encStr (str e u)
  | "bytes" => encR (fun s => if isAscii s then encStr s else "!V") (str e u)
  | "scheme" => encStr u.scheme
  | "raw_authority" => encStr u.netloc
  | "authority" => encR encStr (authority e u)
  | "raw_user" => encR encOptStr (rawUser e u)
  | "user" => encR encOptStr (user e u)
  | "raw_password" => encR encOptStr (rawPassword e u)
  | "password" => encR encOptStr (password e u)
  | "raw_host" => encR encOptStr (rawHost e u)
  | "host" => encR encOptStr (host e u)
  | "host_subcomponent" => encR encOptStr (hostSubcomponent e u)
  | "host_port_subcomponent" => encR encOptStr (hostPortSubcomponent e u)
  | "port" => encR encOptNat (port e u)
  | "explicit_port" => encR encOptNat (explicitPort e u)
  | "is_default_port" => encR encBool (isDefaultPort e u)
  | "raw_path" => encStr (rawPath u)
  | "path" => encStr (pathDecoded e u)
  | "path_safe" => encStr (pathSafe e u)
  | "query" => encPairs (queryPairs u)
  | "raw_query_string" => encStr u.query
  | "query_string" => encStr (queryString e u)
  | "path_qs" => encStr (pathQs e u)
  | "raw_path_qs" => encStr (rawPathQs u)
  | "raw_fragment" => encStr u.fragment
  | "fragment" => encStr (fragmentDecoded e u)
  | "raw_parts" => encList (rawParts u)
  | "parts" => encList (partsDecoded e u)
  | "raw_name" => encR encStr (rawName u)
  | "name" => encR encStr (name e u)
  | "raw_suffix" => encR encStr (rawSuffix u)
  | "suffix" => encR encStr (suffix e u)
  | "raw_suffixes" => encR encList (rawSuffixes u)
  | "suffixes" => encR encList (suffixes e u)
  | "human_repr" => encR encStr (humanRepr e u)
  | "absolute" => encBool (!u.netloc.isEmpty)
  | "bool" => encBool u.truthy
  | "val" => encList [u.scheme, u.netloc, u.path, u.query, u.fragment]
  | _ => "!bad-op"

def modifyUrl (e : Env) (u : Url) (nm : String) (args : List String) : Option (R Url) :=
  match nm, args with
  | "with_scheme", [s] => (decStr s).map (withScheme e u)
  | "with_user", [s] => (decOptStr s).map (withUser e u)
  | "with_password", [s] => (decOptStr s).map (withPassword e u)
  | "with_host", [s] => (decStr s).map (withHost e u)
  | "with_port", [p] => (decPort p).map (fun (p, k) => withPort e u p k)
  | "with_path", [s, enc, kq, kf] => (decStr s).map (fun s => pure (withPath e u s (decBool enc) (decBool kq) (decBool kf)))
  | "with_query", [a] => (decQArg a).map (withQuery e u)
  | "extend_query", [a] => (decQArg a).map (extendQuery e u)
  | "update_query", [a] => (decQArg a).map (updateQuery e u)
  | "without_query_params", names => (names.mapM decStr).map (withoutQueryParams e u)
  | "with_fragment", [s] => (decOptStr s).map (fun f => pure (withFragment e u f))
  | "with_name", [s, kq, kf] => (decStr s).map (fun s => withName e u s (decBool kq) (decBool kf))
  | "with_suffix", [s, kq, kf] => (decStr s).map (fun s => withSuffix e u s (decBool kq) (decBool kf))
  | "truediv", [s] => (decStr s).map (fun s => makeChild e u [s] false)
  | "joinpath", enc :: paths => (paths.mapM decStr).map (fun ps => makeChild e u ps (decBool enc))
  | "parent", [] => some (pure (parent u))
  | "origin", [] => some (origin e u)
  | "relative", [] => some (relative u)
  | _, _ => none

def step (st : St) (fields : List String) : St × String :=
  match fields with
  | ["orc", fn, arg, res] =>
    match decStr arg with
    | some a => ({ st with orc := st.orc.insert (fn, a) res }, "ok")
    | none => (st, "!bad-op")
  | ["q", b, cfg, s] =>
    match parseBackend b, findQuoter cfg, decStr s with
    | some b, some a, some s => (st, encStr (a.run b s))
    | _, _, _ => (st, "!bad-op")
  | ["uq", b, cfg, s] =>
    match parseBackend b, findUnquoter cfg, decStr s with
    | some b, some a, some s => (st, encStr (a.run b s))
    | _, _, _ => (st, "!bad-op")
  | ["np", s] =>
    match decStr s with
    | some s => (st, encStr (normalizePath s))
    | none => (st, "!bad-op")
  | ["rds", s] =>
    match decStr s with
    | some s => (st, encStr (Rfc.removeDotSegments s))
    | none => (st, "!bad-op")
  | ["su", s] =>
    match decStr s with
    | some s => (st, encR (fun p => encList [p.scheme, p.netloc, p.path, p.query, p.fragment]) (splitUrl (mkOracles st.orc) s))
    | none => (st, "!bad-op")
  | ["sn", s] =>
    match decStr s with
    | some s => (st, encR (fun r => encOptStr r.user ++ " " ++ encOptStr r.password ++ " " ++ encOptStr r.host ++ " " ++ encOptNat r.port)
                    (splitNetloc (mkOracles st.orc) s))
    | none => (st, "!bad-op")
  | ["eh", s, v] =>
    match decStr s with
    | some s => (st, encR encStr (encodeHost (mkOracles st.orc) s (decBool v)))
    | none => (st, "!bad-op")
  | ["new", b, mode, s] =>
    match parseBackend b, decStr s with
    | some b, some s =>
      let e : Env := { b := b, o := mkOracles st.orc }
      pushUrl st (if mode = "e" then preEncodedUrl e s else encodeUrl e s)
    | _, _ => (st, "!bad-op")
  | "bld" :: b :: args =>
    match parseBackend b, decBuildArgs args with
    | some b, some a =>
      let e : Env := { b := b, o := mkOracles st.orc }
      pushUrl st (build e a)
    | _, _ => (st, "!bad-op")
  | ["obs", b, h, name] =>
    match parseBackend b, getUrl st h with
    | some b, some u => (st, observe { b := b, o := mkOracles st.orc } u name)
    | some _, none => (st, "!dead")
    | _, _ => (st, "!bad-op")
  | "mod" :: b :: h :: name :: args =>
    match parseBackend b, getUrl st h with
    | some b, some u =>
      match modifyUrl { b := b, o := mkOracles st.orc } u name args with
      | some r => pushUrl st r
      | none => (st, "!bad-op")
    | some _, none => ({ st with urls := st.urls.push none }, "!dead")
    | _, _ => (st, "!bad-op")
  | ["jn", b, h1, h2] =>
    match parseBackend b, getUrl st h1, getUrl st h2 with
    | some b, some u, some v => pushUrl st (pure (join { b := b, o := mkOracles st.orc } u v))
    | some _, _, _ => ({ st with urls := st.urls.push none }, "!dead")
    | _, _, _ => (st, "!bad-op")
  | ["cmp", h1, h2] =>
    match getUrl st h1, getUrl st h2 with
    | some u, some v =>
      (st, encBool (u.beq v) ++ encBool (u.lt v) ++ encBool (u.le v) ++ encBool (u.gt v) ++ encBool (u.ge v) ++ encBool (eqKey u = eqKey v))
    | _, _ => (st, "!dead")
  | ["rt", b, h] =>
    -- URL(str(u)): re-parse the canonical string in auto-encoding mode
    match parseBackend b, getUrl st h with
    | some b, some u =>
      let e : Env := { b := b, o := mkOracles st.orc }
      pushUrl st (do let s ← str e u; encodeUrl e s)
    | some _, none => ({ st with urls := st.urls.push none }, "!dead")
    | _, _ => (st, "!bad-op")
  | ["hr", b, h] =>
    -- URL(u.human_repr())
    match parseBackend b, getUrl st h with
    | some b, some u =>
      let e : Env := { b := b, o := mkOracles st.orc }
      pushUrl st (do let s ← humanRepr e u; encodeUrl e s)
    | some _, none => ({ st with urls := st.urls.push none }, "!dead")
    | _, _ => (st, "!bad-op")
  | ["hre", b, h] =>
    -- u.with_host(u.host): the decoded host supplied again
    match parseBackend b, getUrl st h with
    | some b, some u =>
      let e : Env := { b := b, o := mkOracles st.orc }
      pushUrl st (do
        match ← host e u with
        | some d => withHost e u d
        | none => .error .typeError)
    | some _, none => ({ st with urls := st.urls.push none }, "!dead")
    | _, _ => (st, "!bad-op")
  | ["pkl", h] =>
    match getUrl st h with
    | some u => pushUrl st (pure (pickleTwin u))
    | none => ({ st with urls := st.urls.push none }, "!dead")
  | ["hq", s, uns] =>
    match decStr s, decStr uns with
    | some s, some uns => (st, encR encStr (humanQuote (mkOracles st.orc) s uns))
    | _, _ => (st, "!bad-op")
  | ["pq", s] =>
    match decStr s with
    | some s => (st, encPairs (parseQsl s))
    | none => (st, "!bad-op")
  | ["wr", n, faults, len] =>
    -- Writer model: buffer size, comma-separated failing allocation indices, number of bytes
    match n.toNat?, len.toNat? with
    | some n, some len =>
      let fl := (faults.splitOn ",").filterMap String.toNat?
      let (r, w) := Writer.run n (fun k => fl.contains k) (List.replicate len 97)
      (st, (match r with | .ok d => "ok " ++ toString d.length | .error _ => "!M") ++
           " live=" ++ toString w.live.length ++ " freed=" ++ toString w.freed.length)
    | _, _ => (st, "!bad-op")
  | "cc" :: _ => (st, "ok")      -- cache control: the model is cache-free
  | "tag" :: _ => (st, "ok")     -- harness annotation
  | ["reset"] => ({ st with urls := #[] }, "ok")
  | _ => (st, "!bad-op")

partial def loop (h : IO.FS.Stream) (out : IO.FS.Stream) (st : St) : IO Unit := do
  let line ← h.getLine
  if line.isEmpty then return ()
  let line := (line.dropEndWhile (fun c => c == '\n' || c == '\r')).toString
  let (st', r) := step st (line.splitOn "\t")
  out.putStrLn r
  loop h out st'

def main : IO Unit := do
  let stdin ← IO.getStdin
  let stdout ← IO.getStdout
  loop stdin stdout {}
