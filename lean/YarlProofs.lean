import YarlProofs.Defs
