/-
  Wire.lean — the line protocol's value encoding (shared by every op).
  strings: dot-joined lower-case hex code points; "" is the empty field; `~` is None.
-/
import YarlModel.Str
namespace Yarl.Wire

def hexVal (c : Char) : Option Nat :=
  if '0' ≤ c ∧ c ≤ '9' then some (c.toNat - 48)
  else if 'a' ≤ c ∧ c ≤ 'f' then some (c.toNat - 87)
  else if 'A' ≤ c ∧ c ≤ 'F' then some (c.toNat - 55)
  else none

def parseHex (s : String) : Option Nat :=
  if s.isEmpty then none else
  s.toList.foldl (fun acc c => match acc, hexVal c with
    | some a, some v => some (a * 16 + v)
    | _, _ => none) (some 0)

def decStr (f : String) : Option Str :=
  if f.isEmpty then some [] else
  (f.splitOn ".").mapM parseHex

def hexDigitC (n : Nat) : Char := if n < 10 then Char.ofNat (48 + n) else Char.ofNat (87 + n)

def toHexAux : Nat → Nat → List Char → List Char
  | 0, _, acc => acc
  | fuel + 1, n, acc => if n < 16 then hexDigitC n :: acc else toHexAux fuel (n / 16) (hexDigitC (n % 16) :: acc)

def toHexStr (n : Nat) : String := String.ofList (toHexAux 16 n [])

def encStr (s : Str) : String := ".".intercalate (s.map toHexStr)

def decOptStr (f : String) : Option (Option Str) :=
  if f = "~" then some none else (decStr f).map some

def encOptStr : Option Str → String
  | none => "~"
  | some s => encStr s

def encBool (b : Bool) : String := if b then "T" else "F"

end Yarl.Wire
