/-
  Unquote.lean — the two unquoters.

  Both sources keep the not-yet-decodable escape bytes in a decoder buffer and
  recover their *text* by index arithmetic (`val[idx - 3 - 3*len(buffer) : idx - 3]`).
  Because any non-escape character flushes the buffer, those indices always
  denote the escapes that filled the buffer, verbatim; the model carries that
  text (`ptxt`) next to the pending bytes (`pend`) instead of indices.

  * `unquotePy` — `_quoting_py._Unquoter.__call__` (returns `val` when the result is equal).
  * `unquoteC`  — `_quoting_c._Unquoter._do_unquote` (`changed` flag; returns `val` when unset).
-/
import YarlModel.Quote
set_option linter.unusedVariables false
namespace Yarl

structure UTab where
  ignoreS : Str
  unsafeS : Str
  qs : Bool
  /-- `self._quoter = _Quoter()` -/
  quoter : QTab
  /-- `self._qs_quoter = _Quoter(qs=True)` -/
  qsQuoter : QTab

/-- `hex(ord(ch)).upper()[2:]` — upper-case hex without padding -/
def hexUpperAux : Nat → Nat → Str
  | 0, _ => []
  | fuel + 1, n => if n < 16 then [toHex n] else hexUpperAux fuel (n / 16) ++ [toHex (n % 16)]
def hexUpper (n : Nat) : Str := hexUpperAux 8 n

/-- what a decoded character turns into (re-quoted when it must stay encoded) -/
def uqEmit (b : Backend) (u : UTab) (ch : Nat) : Str :=
  if u.qs = true ∧ mem ch "+=&;".toStr = true then quote b u.qsQuoter [ch]
  else if mem ch u.unsafeS = true ∨ mem ch u.ignoreS = true then quote b u.quoter [ch]
  else [ch]

/-- a character that is not (the start of) an escape -/
def uqPlain (u : UTab) (c : Nat) : Str :=
  if c = 43 then
    if u.qs = false ∨ mem 43 u.unsafeS = true then [43] else [32]
  else if mem c u.unsafeS = true then 37 :: hexUpper c
  else [c]

def uqLoop (b : Backend) (u : UTab) : List Nat → Str → Str → Str
  | _, ptxt, [] => ptxt
  | pend, ptxt, c :: rest =>
    if c = 37 then
      match h : takeEscape restoreCh rest with
      | some (v, d1, d2, rest') =>
        match decodeBuf (pend ++ [v]) with
        | .incomplete => uqLoop b u (pend ++ [v]) (ptxt ++ [37, d1, d2]) rest'
        | .char ch => uqEmit b u ch ++ uqLoop b u [] [] rest'
        | .invalid =>
          ptxt ++
          (match decodeBuf [v] with
           | .incomplete => uqLoop b u [v] [37, d1, d2] rest'
           | .char ch => uqEmit b u ch ++ uqLoop b u [] [] rest'
           | .invalid => [37, d1, d2] ++ uqLoop b u [] [] rest')
      | none => ptxt ++ uqPlain u 37 ++ uqLoop b u [] [] rest
    else ptxt ++ uqPlain u c ++ uqLoop b u [] [] rest
termination_by _ _ l => l.length
decreasing_by
  all_goals simp_wf
  all_goals (try have := takeEscape_length h)
  all_goals omega

def unquotePy (u : UTab) (s : Str) : Str := uqLoop .py u [] [] s

/-- the C `changed` flag: set at every `%` that has two characters after it, at
    every `+` turned into a space, and at every character re-escaped as unsafe -/
def cUnqChanged (u : UTab) : Str → Bool
  | [] => false
  | c :: rest =>
    if c = 37 then
      match h : takeEscape restoreCh rest with
      | some (_, _, _, rest') => true
      | none => (decide (2 ≤ rest.length)) || (mem 37 u.unsafeS) || cUnqChanged u rest
    else if c = 43 then
      (!(u.qs = false ∨ mem 43 u.unsafeS = true)) || cUnqChanged u rest
    else mem c u.unsafeS || cUnqChanged u rest

def unquoteC (u : UTab) (s : Str) : Str :=
  if cUnqChanged u s then uqLoop .c u [] [] s else s

def unquote (b : Backend) (u : UTab) (s : Str) : Str :=
  match b with
  | .py => unquotePy u s
  | .c => unquoteC u s

end Yarl
