/-
  Dyn.lean — a thin DYNAMIC layer over Url.lean: what the public entry points of `yarl/_url.py` and
  `yarl/_query.py` do when they are handed an arbitrary Python object.

  The URL model is typed (`Str`, `Option Str`, `Option Int` + kind tag, `QArg`).  Python is not: every entry point
  starts with (or, for `with_path` / `joinpath`, lacks) `isinstance` / `type(x) is …` tests.  This file transcribes
  exactly those TYPE checks, line by line, over a small universe `PyObj` of Python objects; all value-level work is
  delegated to the existing typed functions (`withScheme`, `withQuery`, `makeChild`, …), so every typed theorem
  transfers along the definitional equations `dynF e u (.str s) = F e u s`.

  Reading conventions (ASSUMPTIONS of this layer, all checked against the real library by the probe table in
  YarlProofs/C19Dyn.lean):
   * `.strSub s` is an instance of a plain subclass of `str` (no overridden `__str__`, `__eq__`, `__hash__`,
     `__getitem__`, `__iter__`, `lower`, …) with content `s`.
   * `.float txt kind`: `txt` is `str(float(v))`, `kind` 0 = finite, 1 = ±inf, 2 = NaN (as in `QVal.float`).
   * `.dict items` is a builtin `dict` in insertion order (a list with repeated keys is not a Python dict; the
     functions below are still total on it).  Other `Mapping` types (MultiDict, …) behave like `dict` in
     `get_str_query` / `update_query` and have no separate tag.
   * `.splitResult parts` is a `urllib.parse.SplitResult` of `str` fields (a `tuple` subclass with 5 fields).
   * `.other tag` is a truthy instance of a class that defines none of `__eq__`/ordering/`__hash__` overrides,
     `__getitem__`, `__iter__`, `__contains__`, `__len__`, `__bool__`, `__int__`, `__rtruediv__`, and is not a
     str / int / float / bytes-like / Mapping / Sequence / URL: `object()` is the archetype.  `tag` is an identity label.
     (An object whose class has `__int__` — `Fraction`, `Decimal`, numpy integers — is rendered by `query_var` like
     the int `int(v)`, see `QVal.int`; an object with a permissive reflected `__eq__` such as `unittest.mock.ANY`
     compares equal to anything, a URL included: neither has a tag here.)
  No Mathlib; everything is executable.
-/
import YarlModel.Url
namespace Yarl

/-- the Python objects the dynamic layer distinguishes -/
inductive PyObj where
  | none
  | bool (b : Bool)
  | int (i : Int)
  | float (txt : Str) (kind : Nat)
  | str (s : Str)
  | strSub (s : Str)
  | bytes (b : List Nat)
  | tuple (xs : List PyObj)
  | list (xs : List PyObj)
  | dict (items : List (PyObj × PyObj))
  | url (u : Url)
  | splitResult (parts : List Str)
  | other (tag : Nat)
  deriving Repr

namespace Dyn

/-! ### builtin protocols on `PyObj` -/

/-- `isinstance(o, str)`, with the string content -/
def strLike : PyObj → Option Str
  | .str s => some s
  | .strSub s => some s
  | _ => Option.none

/-- `str(float)` of a zero: "0.0" / "-0.0" -/
def floatZeroTxt (txt : Str) : Bool := txt = [48, 46, 48] || txt = [45, 48, 46, 48]

/-- `bool(o)` -/
def truthy : PyObj → Bool
  | .none => false
  | .bool b => b
  | .int i => i ≠ 0
  | .float txt kind => kind ≠ 0 || !floatZeroTxt txt
  | .str s => !s.isEmpty
  | .strSub s => !s.isEmpty
  | .bytes b => !b.isEmpty
  | .tuple xs => !xs.isEmpty
  | .list xs => !xs.isEmpty
  | .dict items => !items.isEmpty
  | .url u => u.truthy
  | .splitResult parts => !parts.isEmpty
  | .other _ => true

mutual
/-- `hash(o)` does not raise "unhashable type" (`from_parts` is an `lru_cache`: its arguments are hashed) -/
def hashable : PyObj → Bool
  | .list _ => false
  | .dict _ => false
  | .tuple xs => hashableAll xs
  | _ => true
def hashableAll : List PyObj → Bool
  | [] => true
  | x :: xs => hashable x && hashableAll xs
end

/-- `o == "/"` -/
def eqSlash (o : PyObj) : Bool := strLike o = some [47]

/-- `k == 0` for a dict key (`d[0]` finds `0`, `False`, `0.0`) -/
def isZeroKey : PyObj → Bool
  | .int i => i = 0
  | .bool b => !b
  | .float txt kind => kind = 0 && floatZeroTxt txt
  | _ => false

/-- `o[0]` -/
def item0 : PyObj → R PyObj
  | .str s => match s with
    | c :: _ => .ok (.str [c])
    | [] => .error .indexError
  | .strSub s => match s with
    | c :: _ => .ok (.str [c])
    | [] => .error .indexError
  | .bytes b => match b with
    | c :: _ => .ok (.int c)
    | [] => .error .indexError
  | .tuple xs => match xs with
    | x :: _ => .ok x
    | [] => .error .indexError
  | .list xs => match xs with
    | x :: _ => .ok x
    | [] => .error .indexError
  | .splitResult parts => match parts with
    | p :: _ => .ok (.str p)
    | [] => .error .indexError
  | .dict items => match items.find? (fun kv => isZeroKey kv.1) with
    | some kv => .ok kv.2
    | Option.none => .error .keyError
  | _ => .error .typeError            -- "object is not subscriptable"

/-- `"." in o` -/
def dotIn : PyObj → R Bool
  | .str s => .ok (mem 46 s)
  | .strSub s => .ok (mem 46 s)
  | .tuple xs => .ok (xs.any (fun x => strLike x = some [46]))
  | .list xs => .ok (xs.any (fun x => strLike x = some [46]))
  | .dict items => .ok (items.any (fun kv => strLike kv.1 = some [46]))
  | .splitResult parts => .ok (parts.any (· = [46]))
  | _ => .error .typeError            -- not a container / "a bytes-like object is required, not 'str'"

/-- `list(o)`: `none` = not iterable -/
def iterElems : PyObj → Option (List PyObj)
  | .str s => some (s.map (fun c => .str [c]))
  | .strSub s => some (s.map (fun c => .str [c]))
  | .bytes b => some (b.map (fun (n : Nat) => PyObj.int (Int.ofNat n)))
  | .tuple xs => some xs
  | .list xs => some xs
  | .dict items => some (items.map (·.1))
  | .splitResult parts => some (parts.map .str)
  | _ => Option.none

/-- `k, v = o`: TypeError "cannot unpack non-iterable", ValueError "too many / not enough values to unpack" -/
def unpack2 (o : PyObj) : R (PyObj × PyObj) :=
  match iterElems o with
  | Option.none => .error .typeError
  | some [k, v] => .ok (k, v)
  | some _ => .error .valueError

/-! ### `==`, `!=`, ordering, `hash` -/

/-- `URL.__eq__(u, o)`; `none` = `NotImplemented` (`if type(other) is not URL: return NotImplemented`) -/
def urlEqMethod (u : Url) : PyObj → Option Bool
  | .url v => some (u.beq v)
  | _ => Option.none

/-- the reflected `type(o).__eq__(o, u)` with a URL right operand: `str.__eq__`, `int.__eq__`, `tuple.__eq__`,
    `dict.__eq__`, `object.__eq__` … all return `NotImplemented` for an operand of a foreign type -/
def reflEq (o : PyObj) (u : Url) : Option Bool :=
  match o with
  | .url v => some (v.beq u)
  | _ => Option.none

/-- the four rich-comparison methods `__lt__`, `__le__`, `__gt__`, `__ge__` of URL -/
def urlCmpMethod (op : Nat) (u : Url) : PyObj → Option Bool
  | .url v => some (match op with
    | 0 => u.lt v
    | 1 => u.le v
    | 2 => u.gt v
    | _ => u.ge v)
  | _ => Option.none

/-- the reflected method of the right operand (`o.__gt__(u)` for `u < o`, …): NotImplemented for every non-URL -/
def reflCmp (op : Nat) (o : PyObj) (u : Url) : Option Bool :=
  match o with
  | .url v => some (match op with
    | 0 => v.gt u
    | 1 => v.ge u
    | 2 => v.lt u
    | _ => v.le u)
  | _ => Option.none

/-- `(scheme, netloc, path or "/", query, fragment)`: the tuple `__hash__` hashes and `__eq__` compares -/
def keyTuple (u : Url) : PyObj :=
  let k := eqKey u
  .tuple [.str k.scheme, .str k.netloc, .str k.path, .str k.query, .str k.fragment]

end Dyn

open Dyn

/-- `u == o`, as the interpreter evaluates it: `URL.__eq__`, then the reflected `__eq__` of `o`, then identity
    (a URL object is never identical to an object of another type) -/
def dynEq (u : Url) (o : PyObj) : Bool :=
  match urlEqMethod u o with
  | some b => b
  | none =>
    match reflEq o u with
    | some b => b
    | none => false

/-- `u != o`: URL defines no `__ne__`; `object.__ne__` inverts `__eq__` unless that is NotImplemented, then the
    reflected `__ne__`, then `u is not o` -/
def dynNe (u : Url) (o : PyObj) : Bool :=
  match urlEqMethod u o with
  | some b => !b
  | none =>
    match reflEq o u with
    | some b => !b
    | none => true

/-- `u <op> o` for an ordering operator: both sides NotImplemented → TypeError "'<' not supported between …" -/
def dynCmp (op : Nat) (u : Url) (o : PyObj) : R Bool :=
  match urlCmpMethod op u o with
  | some b => .ok b
  | none =>
    match reflCmp op o u with
    | some b => .ok b
    | none => .error .typeError

def dynLt (u : Url) (o : PyObj) : R Bool := dynCmp 0 u o
def dynLe (u : Url) (o : PyObj) : R Bool := dynCmp 1 u o
def dynGt (u : Url) (o : PyObj) : R Bool := dynCmp 2 u o
def dynGe (u : Url) (o : PyObj) : R Bool := dynCmp 3 u o

/-- `hash(o)` for an arbitrary hash function `hf` on (hashable) objects: a URL hashes the key tuple, a SplitResult
    (a namedtuple) hashes as the tuple of its fields, lists / dicts (also inside tuples) are unhashable -/
def dynHash (hf : PyObj → Int) : PyObj → R Int
  | .url u => .ok (hf (keyTuple u))
  | .splitResult parts => .ok (hf (.tuple (parts.map .str)))
  | o => if hashable o then .ok (hf o) else .error .typeError

/-- `hash(u) == hash(o)` -/
def dynHashEq (hf : PyObj → Int) (u : Url) (o : PyObj) : R Bool := do
  let a ← dynHash hf (.url u)
  let b ← dynHash hf o
  pure (a == b)

/-! ### the constructor -/

/-- `URL(val, encoded=…)` (`__new__`): `type(val) is str`, `type(val) is cls`, `type(val) is SplitResult`,
    `isinstance(val, str)`, else TypeError("Constructor parameter should be str") -/
def dynNew (e : Env) (o : PyObj) (encoded : Bool) : R Url :=
  match o with
  | .str s => if encoded then preEncodedUrl e s else encodeUrl e s
  | .url u => .ok u
  | .splitResult parts =>
    if !encoded then .error .valueError              -- "Cannot apply decoding to SplitResult"
    else match parts with
      | [a, b, c, d, f] => .ok (fromParts a b c d f)   -- `from_parts(*val)`
      | _ => .error .typeError                          -- (a SplitResult has exactly five fields)
  | .strSub s => if encoded then preEncodedUrl e s else encodeUrl e s   -- `str(val)`
  | _ => .error .typeError

/-! ### modifiers with an `isinstance` gate -/

/-- `with_scheme`: `if not isinstance(scheme, str): raise TypeError("Invalid scheme type")` -/
def dynWithScheme (e : Env) (u : Url) (o : PyObj) : R Url :=
  match strLike o with
  | some s => withScheme e u s
  | none => .error .typeError

/-- `with_user`: `None`, `isinstance(user, str)`, else TypeError("Invalid user type") -/
def dynWithUser (e : Env) (u : Url) (o : PyObj) : R Url :=
  match o with
  | .none => withUser e u none
  | _ =>
    match strLike o with
    | some s => withUser e u (some s)
    | none => .error .typeError

/-- `with_password`: `None`, `isinstance(password, str)`, else TypeError("Invalid password type") -/
def dynWithPassword (e : Env) (u : Url) (o : PyObj) : R Url :=
  match o with
  | .none => withPassword e u none
  | _ =>
    match strLike o with
    | some s => withPassword e u (some s)
    | none => .error .typeError

/-- `with_host`: `if not isinstance(host, str): raise TypeError("Invalid host type")` -/
def dynWithHost (e : Env) (u : Url) (o : PyObj) : R Url :=
  match strLike o with
  | some s => withHost e u s
  | none => .error .typeError

/-- `with_port`: `if port is not None: if isinstance(port, bool) or not isinstance(port, int): raise TypeError`;
    the typed function already carries the kind tag (0 int / None, 1 bool, 2 other type) -/
def dynWithPort (e : Env) (u : Url) (o : PyObj) : R Url :=
  match o with
  | .none => withPort e u none 0
  | .int i => withPort e u (some i) 0
  | .bool _ => withPort e u none 1
  | _ => withPort e u none 2

/-- `with_fragment`: `None`, `not isinstance(fragment, str)` → TypeError("Invalid fragment type") -/
def dynWithFragment (e : Env) (u : Url) (o : PyObj) : R Url :=
  match o with
  | .none => .ok (withFragment e u none)
  | _ =>
    match strLike o with
    | some s => .ok (withFragment e u (some s))
    | none => .error .typeError

/-- `with_name`: `if not isinstance(name, str): raise TypeError("Invalid name type")` -/
def dynWithName (e : Env) (u : Url) (o : PyObj) (keepQuery keepFragment : Bool) : R Url :=
  match strLike o with
  | some s => withName e u s keepQuery keepFragment
  | none => .error .typeError

/-- `with_suffix`: `if not isinstance(suffix, str): raise TypeError("Invalid suffix type")` -/
def dynWithSuffix (e : Env) (u : Url) (o : PyObj) (keepQuery keepFragment : Bool) : R Url :=
  match strLike o with
  | some s => withSuffix e u s keepQuery keepFragment
  | none => .error .typeError

/-- `join`: `if type(url) is not URL: raise TypeError("url should be URL")` -/
def dynJoin (e : Env) (u : Url) (o : PyObj) : R Url :=
  match o with
  | .url v => .ok (join e u v)
  | _ => .error .typeError

/-- `u / o`: `__truediv__` returns NotImplemented unless `isinstance(name, str)`; no builtin type and no `.other`
    object has an `__rtruediv__` that accepts a URL, so the interpreter raises TypeError("unsupported operand type(s)") -/
def dynTruediv (e : Env) (u : Url) (o : PyObj) : R Url :=
  match strLike o with
  | some s => makeChild e u [s] false      -- `self._make_child((str(name),))`
  | none => .error .typeError

/-! ### `joinpath`: NO type check — the loop of `_make_child` meets the object -/

/-- what one non-str element does to the loop body of `_make_child`:
    `if path and path[0] == "/": raise ValueError`; `path = path if encoded else PATH_QUOTER(path)`;
    `needs_normalize |= "." in path`; `segments = path.split("/")` -/
def childArgErr (encoded : Bool) (o : PyObj) : PyErr :=
  match (if truthy o then (item0 o).map eqSlash else .ok false) with
  | .error err => err                           -- not subscriptable (TypeError) / `d[0]` KeyError
  | .ok true => .valueError                     -- "Appending path … starting from slash is forbidden"
  | .ok false =>
    if encoded then
      match dotIn o with
      | .error err => err                       -- `"." in path` TypeError
      | .ok _ => .attributeError                -- `path.split`
    else .typeError                             -- PATH_QUOTER: "Argument should be str" (None → None, then `"." in None`)

/-- scan `reversed(paths)`: the str elements met before the first non-str one, and that one -/
def childScan : List PyObj → List Str × Option PyObj
  | [] => ([], none)
  | o :: rest =>
    match strLike o with
    | some s => let (pre, bad) := childScan rest; (s :: pre, bad)
    | none => ([], some o)

/-- `joinpath(*other, encoded=…)` = `_make_child(other, encoded)`.  The loop walks `reversed(other)`; the str elements
    it meets before the first non-str one can only fail with the leading-slash ValueError. -/
def dynJoinpath (e : Env) (u : Url) (xs : List PyObj) (encoded : Bool) : R Url :=
  match childScan xs.reverse with
  | (strs, none) => makeChild e u strs.reverse encoded
  | (pre, some o) =>
    if pre.any (fun s => s.head? = some 47) then .error .valueError else .error (childArgErr encoded o)

/-! ### `with_path`: NO type check either -/

/-- outcomes of `with_path` on an arbitrary object: besides a URL of the model and an exception, the call can RETURN
    an object the model has no value for — `garbage 0`: a URL object whose `_path` is the non-str argument itself;
    `garbage 1`: a URL whose path is `"/" + format(arg)` (the repr of a bytes / tuple / list / dict / SplitResult). -/
inductive PathOut where
  | ok (u : Url)
  | error (e : PyErr)
  | garbage (kind : Nat)
  deriving Repr, DecidableEq

/-- `with_path(path, encoded=…, keep_query=…, keep_fragment=…)` -/
def dynWithPath (e : Env) (u : Url) (o : PyObj) (encoded keepQuery keepFragment : Bool) : PathOut :=
  match strLike o with
  | some s => .ok (withPath e u s encoded keepQuery keepFragment)
  | none =>
    if !encoded then
      match o with
      | .none =>
        -- `PATH_QUOTER(None)` is None; `if netloc and "." in path` raises only under an authority;
        -- `if path and …` is skipped; `from_parts(scheme, netloc, None, query, fragment)`
        if !u.netloc.isEmpty then .error .typeError else .garbage 0
      | _ => .error .typeError                  -- PATH_QUOTER: "Argument should be str"
    else
      -- `if path and path[0] != "/": path = f"/{path}"`, then the `lru_cache`d `from_parts` hashes `path`
      if !truthy o then (if hashable o then .garbage 0 else .error .typeError)
      else
        match item0 o with
        | .error err => .error err
        | .ok x =>
          if eqSlash x then (if hashable o then .garbage 0 else .error .typeError)
          else .garbage 1

/-! ### the query argument (`get_str_query`, `update_query`) -/

namespace Dyn

/-- the type dispatch of `query_var` (and of `v if type(v) is str else query_var(v)`) onto the existing tags -/
def toQVal : PyObj → QVal
  | .str s => .str s
  | .strSub s => .str s                -- `issubclass(cls, str)`: returned as is; the quoter applies `str()`
  | .int i => .int i
  | .float txt kind => .float txt kind
  | .bool _ => .bool
  | .none => .none
  | _ => .other                        -- bytes, list, tuple, dict, URL, SplitResult, objects: "Invalid variable type"

/-- a value slot: `isinstance(val, (list, tuple))` (and not `type(val) is str`) is a sequence of values — a
    SplitResult is a tuple.  (For a pair SEQUENCE the typed `strQueryFromIterable` rejects `.many` with TypeError,
    which is what `query_var(list)` raises.) -/
def toQItem : PyObj → QItem
  | .tuple xs => .many (xs.map toQVal)
  | .list xs => .many (xs.map toQVal)
  | .splitResult parts => .many (parts.map .str)
  | o => .one (toQVal o)

/-- the text of a key in `f"{quoter(k)}=…"`: `quoter(None)` is None and formats as "None"; a str (subclass) is
    itself; any other type: `none` = TypeError("Argument should be str") -/
def keyStr : PyObj → Option Str
  | .none => some [78, 111, 110, 101]
  | o => strLike o

/-- a slot that raises TypeError exactly where the original one would have evaluated `quoter(k)` -/
def poisonItem : QItem → QItem
  | .one _ => .one .other
  | .many vs => .many (vs.map (fun _ => .other))

/-- a pair that raises `err` (TypeError / ValueError) when the list comprehension reaches it -/
def poisonPair (err : PyErr) : Str × QItem :=
  match err with
  | .valueError => ([], .one (.float [] 1))
  | _ => ([], .one .other)

/-- one `(k, val)` of `items`: the key is evaluated (`quoter(k)`) once per value, BEFORE the value -/
def mkPair (k v : PyObj) : Str × QItem :=
  match keyStr k with
  | some ks => (ks, toQItem v)
  | none => ([], poisonItem (toQItem v))

/-- one element of a pair sequence: `for k, v in items` unpacks it first -/
def pairOf (o : PyObj) : Str × QItem :=
  match unpack2 o with
  | .ok (k, v) => mkPair k v
  | .error err => poisonPair err

/-- one element of a sequence handed to (the C implementation of) `MultiDict.update`, multidict 6.2: converted to a
    sequence (TypeError), length 2 required (ValueError; the pure-Python multidict raises TypeError here), key must be
    a str or subclass (TypeError "MultiDict keys should be either str or subclasses of str") — element by element -/
def mdPair (o : PyObj) : R (Str × QItem) :=
  match unpack2 o with
  | .error err => .error err
  | .ok (k, v) =>
    match strLike k with
    | some ks => .ok (ks, toQItem v)
    | none => .error .typeError

end Dyn

/-- `get_str_query(query)` with ONE positional argument, as the typed argument the rest of that function works on:
    `None`; `not query` → ""; `type(query) is dict`; str; Mapping; bytes-like → TypeError; Sequence; else TypeError.
    Offending keys / un-unpackable elements become slots that raise the same error kind at the same position. -/
def dynQuery (o : PyObj) : QArg :=
  match o with
  | .none => .none
  | _ =>
    if !truthy o then .str []            -- `if not query: return ""` — also 0, False, 0.0, b"", URL("")
    else
      match o with
      | .dict items => .mapping (items.map (fun kv => mkPair kv.1 kv.2))
      | .str s => .str s
      | .strSub s => .str s
      | .bytes _ => .bytes false
      | .tuple xs => .pairs (xs.map pairOf)
      | .list xs => .pairs (xs.map pairOf)
      | .splitResult parts => .pairs (parts.map (fun p => pairOf (.str p)))
      | _ => .other

/-- `get_str_query(**kwargs)`: kwargs is a dict with str keys; none at all is the arity ValueError -/
def dynQueryKw (kw : List (Str × PyObj)) : QArg :=
  if kw.isEmpty then .noArgs else .mapping (kw.map (fun kv => (kv.1, toQItem kv.2)))

def dynWithQuery (e : Env) (u : Url) (o : PyObj) : R Url := withQuery e u (dynQuery o)
def dynExtendQuery (e : Env) (u : Url) (o : PyObj) : R Url := extendQuery e u (dynQuery o)
def dynWithQueryKw (e : Env) (u : Url) (kw : List (Str × PyObj)) : R Url := withQuery e u (dynQueryKw kw)
def dynExtendQueryKw (e : Env) (u : Url) (kw : List (Str × PyObj)) : R Url := extendQuery e u (dynQueryKw kw)
def dynUpdateQueryKw (e : Env) (u : Url) (kw : List (Str × PyObj)) : R Url := updateQuery e u (dynQueryKw kw)

/-- `update_query(query)` with one positional argument: its own dispatch (`None`, falsy, Mapping, str, bytes-like,
    Sequence, else TypeError); a mapping / sequence goes through `MultiDict.update` FIRST, which validates every
    key (and every element of a sequence) before anything is rendered -/
def dynUpdateQuery (e : Env) (u : Url) (o : PyObj) : R Url :=
  match o with
  | .none => updateQuery e u .none
  | _ =>
    if !truthy o then updateQuery e u (.str [])      -- `query = self._query`
    else
      match o with
      | .dict items =>
        if items.all (fun kv => (strLike kv.1).isSome) then
          updateQuery e u (.mapping (items.map (fun kv => mkPair kv.1 kv.2)))
        else .error .typeError                       -- "MultiDict keys should be either str or subclasses of str"
      | .str s => updateQuery e u (.str s)
      | .strSub s => updateQuery e u (.str s)
      | .bytes _ => .error .typeError
      | .tuple xs => (xs.mapM mdPair).bind (fun items => updateQuery e u (.pairs items))
      | .list xs => (xs.mapM mdPair).bind (fun items => updateQuery e u (.pairs items))
      | .splitResult parts =>
        ((parts.map PyObj.str).mapM mdPair).bind (fun items => updateQuery e u (.pairs items))
      | _ => .error .typeError

/-! ### rendering of outcomes, for the probe tables (YarlProofs/C10Dyn.lean, C12Dyn.lean, C19Dyn.lean)

  One row of a probe table is `(entry point, base URL, argument)`; the real library's outcome is printed by
  `/tmp/q3_probe.py real` as `ok:<str(url)>`, `err:<kind>`, `garbage<k>`, `true` / `false`; `Out` is that alphabet. -/
namespace Dyn

inductive Out where
  | ok (s : Str)
  | err (e : PyErr)
  | garbage (k : Nat)
  | bool (b : Bool)
  deriving Repr, DecidableEq

/-- the environment of the probe rows: all probe inputs are ASCII, no oracle is consulted -/
def pe : Env := ⟨.c, Oracles.empty⟩
def pePy : Env := ⟨.py, Oracles.empty⟩

/-- `URL(s)` for a probe row (the rows only use strings the constructor accepts) -/
def pU (s : Str) : Url :=
  match encodeUrl pe s with
  | .ok u => u
  | .error _ => fromParts [] [] [] [] []

def showB : R Bool → Out
  | .ok b => .bool b
  | .error err => .err err

/-- a returned URL is shown by `str()` -/
def showU (e : Env) : R Url → Out
  | .ok u =>
    match str e u with
    | .ok s => .ok s
    | .error err => .err err
  | .error err => .err err

def showP (e : Env) : PathOut → Out
  | .ok u => showU e (.ok u)
  | .error err => .err err
  | .garbage k => .garbage k

end Dyn

end Yarl
