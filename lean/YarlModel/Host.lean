/-
  Host.lean — `_encode_host`, `_idna_encode`, `_idna_decode` of `yarl/_url.py`,
  with `ipaddress.ip_address(...).compressed` (CPython 3.12) modelled by hand.
-/
import YarlModel.Parse
import YarlModel.Wire
namespace Yarl

/-! ### ipaddress (3.12): IPv4 -/

/-- `IPv4Address._parse_octet` -/
def parseOctet (s : Str) : Option Nat :=
  if s.isEmpty then none
  else if !(s.all isDigitC) then none
  else if s.length > 3 then none
  else if s ≠ [48] ∧ s.head? = some 48 then none
  else
    let v := s.foldl (fun a c => a * 10 + (c - 48)) 0
    if v > 255 then none else some v

/-- `IPv4Address(s)` → the four octets -/
def parseIPv4 (s : Str) : Option (List Nat) :=
  if mem 47 s then none
  else if s.isEmpty then none
  else
    let octets := splitOn 46 s
    if octets.length ≠ 4 then none
    else octets.mapM parseOctet

def ipv4ToStr (o : List Nat) : Str := joinC 46 (o.map natToStr)

/-! ### ipaddress (3.12): IPv6 -/

def hexVal (c : Nat) : Nat :=
  if isDigitC c then c - 48 else if 65 ≤ c ∧ c ≤ 70 then c - 55 else c - 87

/-- `IPv6Address._parse_hextet` -/
def parseHextet (s : Str) : Option Nat :=
  if !(s.all isHexC) then none
  else if s.length > 4 then none
  else if s.isEmpty then none          -- int('', 16) raises ValueError
  else some (s.foldl (fun a c => a * 16 + hexVal c) 0)

/-- index of the single empty interior part; `none` = no `::`; `some none` = error (two of them) -/
def findSkip (parts : List Str) : Option (Option Nat) :=
  let n := parts.length
  let idxs := (List.range n).filter (fun i => 1 ≤ i ∧ i + 1 < n ∧ (parts.getD i [1]).isEmpty)
  match idxs with
  | [] => some none
  | [i] => some (some i)
  | _ => none

/-- `IPv6Address._ip_int_from_string` → the eight hextets -/
def parseIPv6 (s : Str) : Option (List Nat) :=
  if mem 47 s then none
  else if s.isEmpty then none
  else
    let parts0 := splitOn 58 s
    if parts0.length < 3 then none
    else
      -- IPv4-style suffix
      let partsE : Option (List Str) :=
        match parts0.getLast? with
        | some l =>
          if mem 46 l then
            match parseIPv4 l with
            | some [a, b, c, d] =>
              some (parts0.dropLast ++ [(Wire.toHexStr (a * 256 + b)).toStr, (Wire.toHexStr (c * 256 + d)).toStr])
            | _ => none
          else some parts0
        | none => none
      match partsE with
      | none => none
      | some parts =>
        if parts.length > 9 then none
        else
          match findSkip parts with
          | none => none
          | some (some skip) =>
            let hi0 := skip
            let lo0 := parts.length - skip - 1
            let firstEmpty := (parts.headD [1]).isEmpty
            let lastEmpty := (parts.getLastD [1]).isEmpty
            let hi := if firstEmpty then hi0 - 1 else hi0
            let lo := if lastEmpty then lo0 - 1 else lo0
            if firstEmpty ∧ hi ≠ 0 then none
            else if lastEmpty ∧ lo ≠ 0 then none
            else if 8 < hi + lo + 1 then none       -- parts_skipped = 8 - (hi+lo) < 1
            else
              let his := (parts.take hi).mapM parseHextet
              let los := ((parts.drop (parts.length - lo))).mapM parseHextet
              match his, los with
              | some h, some l => some (h ++ List.replicate (8 - (hi + lo)) 0 ++ l)
              | _, _ => none
          | some none =>
            if parts.length ≠ 8 then none
            else if (parts.headD [1]).isEmpty then none
            else if (parts.getLastD [1]).isEmpty then none
            else parts.mapM parseHextet

/-- `_compress_hextets`: the first longest run of zero hextets (length > 1) -/
def bestZeroRun (h : List Nat) : Nat × Nat :=
  -- returns (start, len) of the best run, len = 0 if none
  let rec go : List Nat → Nat → Nat → Nat → Nat → Nat → Nat × Nat
    | [], _, _, _, bs, bl => (bs, bl)
    | x :: xs, idx, cs, cl, bs, bl =>
      if x = 0 then
        let cs' := if cl = 0 then idx else cs
        let cl' := cl + 1
        if cl' > bl then go xs (idx + 1) cs' cl' cs' cl' else go xs (idx + 1) cs' cl' bs bl
      else go xs (idx + 1) 0 0 bs bl
  go h 0 0 0 0 0

def hexLower (n : Nat) : Str := (Wire.toHexStr n).toStr

/-- `IPv6Address.compressed` -/
def ipv6ToStr (h : List Nat) : Str :=
  let (bs, bl) := bestZeroRun h
  let hs := h.map hexLower
  if bl > 1 then
    let before := hs.take bs
    let after := hs.drop (bs + bl)
    let mid : List Str := [[]]
    let l1 := before ++ mid ++ after ++ (if bs + bl = hs.length then [[]] else [])
    let l2 := if bs = 0 then [] :: l1 else l1
    joinC 58 l2
  else joinC 58 hs

inductive IP where
  | v4 (o : List Nat)
  | v6 (h : List Nat)
  deriving Repr, DecidableEq

/-- `ip_address(s)` -/
def parseIP (s : Str) : Option IP :=
  match parseIPv4 s with
  | some o => some (.v4 o)
  | none => (parseIPv6 s).map .v6

/-! ### NOT_REG_NAME on a lower-cased ASCII host -/

def isLowerHexDigit (c : Nat) : Bool := isDigitC c || (97 ≤ c && c ≤ 102)

/-- `NOT_REG_NAME.search(host)` finds something -/
def notRegName : Str → Bool
  | [] => false
  | 37 :: rest =>
    (match rest with
     | a :: b :: _ => !(isLowerHexDigit a && isLowerHexDigit b)
     | _ => true) || notRegName rest
  | c :: rest => !mem c Gen.regNameChars || notRegName rest

/-! ### IDNA through the oracles -/

/-- `_idna_encode` -/
def idnaEncode (o : Oracles) (host : Str) : R Str := do
  match ← ask "idnaEnc" host (o.idnaEnc host) with
  | some r => pure r
  | none =>
    match ← ask "idnaEncStd" host (o.idnaEncStd host) with
    | some r => pure (lower r)
    | none => .error .valueError

/-- `_idna_decode` -/
def idnaDecode (o : Oracles) (raw : Str) : R Str := do
  if !isAscii raw then .error .valueError      -- raw.encode("ascii") → UnicodeEncodeError in both attempts
  else
    match ← ask "idnaDec" raw (o.idnaDec raw) with
    | some r => pure r
    | none =>
      match ← ask "idnaDecStd" raw (o.idnaDecStd raw) with
      | some r => pure r
      | none => .error .valueError

/-- `str.isdigit()` of one character -/
def isDigitChar (o : Oracles) (c : Nat) : R Bool :=
  if c < 128 then pure (isDigitC c) else ask "isDigitU" [c] (o.isDigitU c)

/-- `_encode_host` re-entered on the ASCII text an IDNA mapping produced (since fix 3fbf5b4: a host that only becomes an
    IP-literal through the mapping, e.g. fullwidth digits).  Same code as `encodeHost` below; the IDNA step cannot be reached
    again because `_idna_encode` answers with ASCII text (`….decode("ascii")`), so that branch is ValueError here. -/
def encodeHostA (o : Oracles) (host : Str) (validate : Bool) : R Str := do
  let looksIP ← (match host.getLast? with
    | none => pure false
    | some l => do
      let d ← (if mem 58 host then pure true else isDigitChar o l : R Bool)
      pure d : R Bool)
  let ipResult : Option (R Str) :=
    if looksIP then
      let (rawIp, sep, zone) := partition 37 host
      match parseIP rawIp with
      | some ip =>
        -- the zone id is copied verbatim, so with validation on it is checked like a reg-name
        if validate && sep && notRegName (lower zone) then some (.error .valueError)
        else match ip with
          | .v6 h => some (pure (if sep then [91] ++ ipv6ToStr h ++ [37] ++ zone ++ [93] else [91] ++ ipv6ToStr h ++ [93]))
          | .v4 ip => some (pure (if sep then ipv4ToStr ip ++ [37] ++ zone else ipv4ToStr ip))
      | none => none
    else none
  match ipResult with
  | some r => r
  | none =>
    if isAscii host then
      let h := lower host
      if validate && notRegName h then .error .valueError else pure h
    else .error .valueError


/-- `_encode_host(host, validate_host)` -/
def encodeHost (o : Oracles) (host : Str) (validate : Bool) : R Str := do
  let looksIP ← (match host.getLast? with
    | none => pure false
    | some l => do
      let d ← (if mem 58 host then pure true else isDigitChar o l : R Bool)
      pure d : R Bool)
  let ipResult : Option (R Str) :=
    if looksIP then
      let (rawIp, sep, zone) := partition 37 host
      match parseIP rawIp with
      | some ip =>
        -- the zone id is copied verbatim, so with validation on it is checked like a reg-name
        if validate && sep && notRegName (lower zone) then some (.error .valueError)
        else match ip with
          | .v6 h => some (pure (if sep then [91] ++ ipv6ToStr h ++ [37] ++ zone ++ [93] else [91] ++ ipv6ToStr h ++ [93]))
          | .v4 ip => some (pure (if sep then ipv4ToStr ip ++ [37] ++ zone else ipv4ToStr ip))
      | none => none
    else none
  match ipResult with
  | some r => r
  | none =>
    if isAscii host then
      let h := lower host
      if validate && notRegName h then .error .valueError else pure h
    else
      let h ← idnaEncode o host
      if mem 58 h then encodeHostA o h validate      -- the mapping produced an IP-literal: canonicalise it as one
      else if validate && notRegName h then .error .valueError else pure h

end Yarl
