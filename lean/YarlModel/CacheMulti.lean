/-
  CacheMulti.lean — the memoisation layer of yarl with SEVERAL caches (properties C08 and C20).

  Generalises Cache.lean (ONE `lru_cache`d constructor) to what `yarl/_url.py` really has:

  * a FAMILY of cached functions, indexed by `I` (`encode_url`, `pre_encoded_url`,
    `build_pre_encoded_url`, `from_parts`; or the string caches `_encode_host`, `_idna_encode`,
    `_idna_decode`): every call key `k : Key` belongs to one cache `cacheOf k`, every cache has its own
    table, capacity and eviction policy; all constructors allocate in ONE shared heap of objects
    (immutable `parts` + per-object `memo` = the `_cache` dict, pre-filled by `prefill`);
  * DERIVATIONS `Op.mod h m args` (`with_*`, `/`, `join`, `parent`, `origin()`, …): a pure function
    `modify m` of the parts of handle `h` (and of further argument handles `args`, e.g. the reference
    of `join`) that either raises, returns one of its argument objects (`return self` / `return url`),
    or obtains its result THROUGH a cached constructor call (`from_parts(...)`) — so equal results
    may be shared objects.  Derivations that are `cached_property`s (`parent`, `_origin`) additionally
    memoise the result OBJECT in the source object (`dmemo`);
  * `hash(url)` (memoised under the key "hash" of the same `_cache` dict) and the comparisons
    (`==`, `!=`, `<`, `<=`, `>`, `>=`: read the parts only);
  * per-cache `clear i` and `configure i cap`.  `cache_configure` REBINDS the module global to a new
    `lru_cache` wrapper: every cache has a current GENERATION `gen i`; `configure` starts generation
    `gen i + 1` with an empty table and the new capacity.  Old generations' tables stay in the world:
    a thread that fetched the old wrapper before the rebinding completes its call on the OLD table
    (it may hit there and it stores there: a store into a discarded table, invisible to everybody who
    fetches the global afterwards).

  Threads: every call is split into atomic steps touching the shared state once:
    fetch the wrapper (`gen`) / table look-up / compute / allocate + table store / derivation-memo
    look-up and store / memo look-up / memo store / fetch + `cache_clear`.
-/
import YarlModel.Cache
namespace Yarl.MultiCache
open Yarl.Cache (Obj Policy lookup memoGet setMemo insertTable)

/-- what a derivation does once its arguments are known -/
inductive ModRes (Err Key : Type) where
  | raise (e : Err)
  | same (j : Nat)       -- returns an argument object itself: 0 = `self`, j+1 = `args[j]`
  | via (k : Key)        -- returns the result of the cached constructor call `k` (`from_parts(...)`)

inductive CmpOp where
  | eq | ne | lt | le | gt | ge
  deriving DecidableEq, Repr

/-- the pure semantics, all parameters -/
structure Sem (I Key Mod Err Parts Val : Type) where
  /-- which `lru_cache` a call key belongs to -/
  cacheOf : Key → I
  /-- what the cached function computes; `.error` = raises (exceptions are not cached) -/
  construct : Key → Except Err Parts
  /-- `_cache` entries pre-computed at construction -/
  prefill : Key → Parts → List (String × Val)
  /-- accessor semantics: name ↦ value (exceptions are values) -/
  derive : Parts → String → Val
  /-- `hash(url)` -/
  hash : Parts → Val
  /-- `url1 <op> url2` -/
  cmp : CmpOp → Parts → Parts → Val
  /-- derivations -/
  modify : Mod → Parts → List Parts → ModRes Err Key
  /-- the derivations that are `cached_property`s: the name under which the result object is memoised -/
  memoName : Mod → Option String

/-- the `_cache` key under which `__hash__` stores its result (it is not an attribute name) -/
def hashKey : String := "hash"

variable {I Key Mod Err Parts Val : Type} [DecidableEq I] [DecidableEq Key]

/-- what a `_cache` entry named `n` must hold -/
def Sem.attr (sem : Sem I Key Mod Err Parts Val) (p : Parts) (n : String) : Val :=
  if n = hashKey then sem.hash p else sem.derive p n

/-- the value (or exception) of a derivation -/
def Sem.modVal (sem : Sem I Key Mod Err Parts Val) (m : Mod) (p : Parts) (ps : List Parts) : Except Err Parts :=
  match sem.modify m p ps with
  | .raise e => .error e
  | .same j => .ok ((p :: ps).getD j p)
  | .via k => sem.construct k

structure World (I Key Parts Val : Type) where
  heap : List (Obj Parts Val) := []                           -- object id = index
  /-- cache `i`, generation `g`: key ↦ object id -/
  tables : I → Nat → List (Key × Nat) := fun _ _ => []
  caps : I → Nat → Option Nat := fun _ _ => some 128
  /-- the generation the module global of cache `i` is currently bound to -/
  gen : I → Nat := fun _ => 0
  /-- derivation memo: (source object id, property name) ↦ result object id -/
  dmemo : List ((Nat × String) × Nat) := []

inductive Op (I Key Mod : Type) where
  | new (k : Key)                              -- a cached constructor / cached function call
  | read (h : Nat) (name : String)             -- an accessor on handle h
  | hash (h : Nat)                             -- hash(url)
  | cmp (c : CmpOp) (h1 h2 : Nat)              -- url1 <op> url2
  | twin (h : Nat)                             -- pickle / copy / deepcopy
  | mod (h : Nat) (m : Mod) (args : List Nat)  -- a derivation on handle h with further handles as arguments
  | clear (i : I)
  | configure (i : I) (cap : Option Nat)

inductive Out (Err Parts Val : Type) where
  | handle (r : Except Err Parts)   -- a new URL (its parts) or the exception raised
  | value (v : Val)                 -- accessor / hash / comparison result
  | dead                            -- the operation mentioned a handle that does not denote an object
  | unit

def updTable (tables : I → Nat → List (Key × Nat)) (i : I) (g : Nat) (t : List (Key × Nat)) :
    I → Nat → List (Key × Nat) :=
  fun j g' => if j = i ∧ g' = g then t else tables j g'

/-- the object (id and contents) handle `h` denotes -/
def objOf (w : World I Key Parts Val) (hs : List (Option Nat)) (h : Nat) : Option (Nat × Obj Parts Val) :=
  match hs[h]? with
  | some (some id) => (w.heap[id]?).map (fun o => (id, o))
  | _ => none

def objsOf (w : World I Key Parts Val) (hs : List (Option Nat)) : List Nat → Option (List (Nat × Obj Parts Val))
  | [] => some []
  | h :: t =>
    match objOf w hs h, objsOf w hs t with
    | some x, some xs => some (x :: xs)
    | _, _ => none

/-- allocate the object for call `k` with result `p` and publish it in table (`cacheOf k`, generation `g`) -/
def alloc (sem : Sem I Key Mod Err Parts Val) (pol : I → Policy Key) (w : World I Key Parts Val)
    (k : Key) (g : Nat) (p : Parts) : World I Key Parts Val × Nat :=
  let i := sem.cacheOf k
  let id := w.heap.length
  ({ w with heap := w.heap ++ [{ parts := p, memo := sem.prefill k p }],
            tables := updTable w.tables i g (insertTable (pol i) (w.caps i g) (w.tables i g) k id) }, id)

/-- `cache_configure`: rebind cache `i` to a fresh wrapper (next generation, empty table, new capacity) -/
def reconfigure (w : World I Key Parts Val) (i : I) (c : Option Nat) : World I Key Parts Val :=
  { w with gen := fun j => if j = i then w.gen i + 1 else w.gen j,
           tables := updTable w.tables i (w.gen i + 1) [],
           caps := fun j g => if j = i ∧ g = w.gen i + 1 then c else w.caps j g }

def dstore (w : World I Key Parts Val) (slot : Option (Nat × String)) (rid : Nat) : World I Key Parts Val :=
  match slot with
  | some s => { w with dmemo := (s, rid) :: w.dmemo }
  | none => w

/-- the derivation-memo slot of `m` on object `id` (only argument-less derivations are properties) -/
def slotOf (sem : Sem I Key Mod Err Parts Val) (m : Mod) (args : List Nat) (id : Nat) : Option (Nat × String) :=
  match sem.memoName m, args with
  | some n, [] => some (id, n)
  | _, _ => none

/-- a cached call, sequentially: look up the current generation's table, else compute, allocate, store -/
def call (sem : Sem I Key Mod Err Parts Val) (pol : I → Policy Key) (w : World I Key Parts Val) (k : Key) :
    World I Key Parts Val × Option Nat × Out Err Parts Val :=
  let i := sem.cacheOf k
  let g := w.gen i
  match lookup (w.tables i g) k with
  | some id =>
    match w.heap[id]? with
    | some o => (w, some id, .handle (.ok o.parts))
    | none => (w, none, .dead)                            -- unreachable for coherent worlds
  | none =>
    match sem.construct k with
    | .error e => (w, none, .handle (.error e))
    | .ok p => ((alloc sem pol w k g p).1, some (alloc sem pol w k g p).2, .handle (.ok p))

/-- a derivation, sequentially -/
def modCall (sem : Sem I Key Mod Err Parts Val) (pol : I → Policy Key) (w : World I Key Parts Val)
    (hs : List (Option Nat)) (h : Nat) (m : Mod) (args : List Nat) :
    World I Key Parts Val × Option Nat × Out Err Parts Val :=
  match objOf w hs h, objsOf w hs args with
  | some (id, o), some xs =>
    let slot := slotOf sem m args id
    match slot.bind (lookup w.dmemo) with
    | some rid =>
      match w.heap[rid]? with
      | some r => (w, some rid, .handle (.ok r.parts))
      | none => (w, none, .dead)                          -- unreachable for coherent worlds
    | none =>
      match sem.modify m o.parts (xs.map (·.2.parts)) with
      | .raise e => (w, none, .handle (.error e))
      | .same j =>
        let x := ((id, o) :: xs).getD j (id, o)
        (dstore w slot x.1, some x.1, .handle (.ok x.2.parts))
      | .via k =>
        let r := call sem pol w k
        ((match r.2.1 with | some rid => dstore r.1 slot rid | none => r.1), r.2.1, r.2.2)
  | _, _ => (w, none, .dead)

/-- implementation step: world, handle list (handle ↦ object id, `none` = creation raised) -/
def step (sem : Sem I Key Mod Err Parts Val) (pol : I → Policy Key) (w : World I Key Parts Val)
    (hs : List (Option Nat)) : Op I Key Mod → World I Key Parts Val × List (Option Nat) × Out Err Parts Val
  | .new k =>
    let r := call sem pol w k
    (r.1, hs ++ [r.2.1], r.2.2)
  | .read h name =>
    match objOf w hs h with
    | some (id, o) =>
      if name = hashKey then (w, hs, .value (sem.derive o.parts name))     -- no property is called "hash"
      else
        match memoGet o.memo name with
        | some v => (w, hs, .value v)
        | none => ({ w with heap := setMemo w.heap id name (sem.derive o.parts name) }, hs, .value (sem.derive o.parts name))
    | none => (w, hs, .dead)
  | .hash h =>
    match objOf w hs h with
    | some (id, o) =>
      match memoGet o.memo hashKey with
      | some v => (w, hs, .value v)
      | none => ({ w with heap := setMemo w.heap id hashKey (sem.hash o.parts) }, hs, .value (sem.hash o.parts))
    | none => (w, hs, .dead)
  | .cmp c h1 h2 =>
    match objOf w hs h1, objOf w hs h2 with
    | some (_, o1), some (_, o2) => (w, hs, .value (sem.cmp c o1.parts o2.parts))
    | _, _ => (w, hs, .dead)
  | .twin h =>
    match objOf w hs h with
    | some (_, o) =>
      ({ w with heap := w.heap ++ [{ parts := o.parts, memo := [] }] }, hs ++ [some w.heap.length], .handle (.ok o.parts))
    | none => (w, hs ++ [none], .dead)
  | .mod h m args =>
    let r := modCall sem pol w hs h m args
    (r.1, hs ++ [r.2.1], r.2.2)
  | .clear i => ({ w with tables := updTable w.tables i (w.gen i) [] }, hs, .unit)
  | .configure i c => (reconfigure w i c, hs, .unit)

def run (sem : Sem I Key Mod Err Parts Val) (pol : I → Policy Key) :
    World I Key Parts Val → List (Option Nat) → List (Op I Key Mod) → List (Out Err Parts Val)
  | _, _, [] => []
  | w, hs, op :: ops =>
    let r := step sem pol w hs op
    r.2.2 :: run sem pol r.1 r.2.1 ops

/-- the final world and handle list of a run -/
def runWorld (sem : Sem I Key Mod Err Parts Val) (pol : I → Policy Key) :
    World I Key Parts Val → List (Option Nat) → List (Op I Key Mod) → World I Key Parts Val × List (Option Nat)
  | w, hs, [] => (w, hs)
  | w, hs, op :: ops =>
    let r := step sem pol w hs op
    runWorld sem pol r.1 r.2.1 ops

/-! ### the cache-free specification: handles are values -/

def valOf (shs : List (Option Parts)) (h : Nat) : Option Parts :=
  match shs[h]? with
  | some (some p) => some p
  | _ => none

def valsOf (shs : List (Option Parts)) : List Nat → Option (List Parts)
  | [] => some []
  | h :: t =>
    match valOf shs h, valsOf shs t with
    | some p, some ps => some (p :: ps)
    | _, _ => none

def specStep (sem : Sem I Key Mod Err Parts Val) (shs : List (Option Parts)) :
    Op I Key Mod → List (Option Parts) × Out Err Parts Val
  | .new k => (shs ++ [(sem.construct k).toOption], .handle (sem.construct k))
  | .read h name =>
    match valOf shs h with
    | some p => (shs, .value (sem.derive p name))
    | none => (shs, .dead)
  | .hash h =>
    match valOf shs h with
    | some p => (shs, .value (sem.hash p))
    | none => (shs, .dead)
  | .cmp c h1 h2 =>
    match valOf shs h1, valOf shs h2 with
    | some p1, some p2 => (shs, .value (sem.cmp c p1 p2))
    | _, _ => (shs, .dead)
  | .twin h =>
    match valOf shs h with
    | some p => (shs ++ [some p], .handle (.ok p))
    | none => (shs ++ [none], .dead)
  | .mod h m args =>
    match valOf shs h, valsOf shs args with
    | some p, some ps => (shs ++ [(sem.modVal m p ps).toOption], .handle (sem.modVal m p ps))
    | _, _ => (shs ++ [none], .dead)
  | .clear _ => (shs, .unit)
  | .configure _ _ => (shs, .unit)

def specRun (sem : Sem I Key Mod Err Parts Val) : List (Option Parts) → List (Op I Key Mod) → List (Out Err Parts Val)
  | _, [] => []
  | shs, op :: ops => (specStep sem shs op).2 :: specRun sem (specStep sem shs op).1 ops

/-- the spec's handle list after a sequence of operations -/
def specHandles (sem : Sem I Key Mod Err Parts Val) : List (Option Parts) → List (Op I Key Mod) → List (Option Parts)
  | shs, [] => shs
  | shs, op :: ops => specHandles sem (specStep sem shs op).1 ops

/-! ### threads -/

/-- what a thread is in the middle of -/
inductive Pending (I Key Err Parts Val : Type) where
  | idle
  /-- a memoised derivation missed the derivation memo at `slot`: the property body runs next -/
  | modRun (slot : Nat × String)
  /-- the wrapper of generation `g` has been fetched for call `k`: its table is looked up next -/
  | fetched (k : Key) (g : Nat) (slot : Option (Nat × String))
  /-- call `k` missed table `g` and has computed its result: allocate and store next -/
  | computed (k : Key) (g : Nat) (r : Except Err Parts) (slot : Option (Nat × String))
  /-- the property body returned object `rid` (parts `q`): store it in the derivation memo, then return -/
  | dstore (slot : Nat × String) (rid : Nat) (q : Parts)
  /-- an accessor / hash missed the memo and has computed its value: store next -/
  | readComputed (id : Nat) (name : String) (v : Val)
  /-- `cache_clear()` has fetched the wrapper of generation `g` -/
  | clearFetched (i : I) (g : Nat)

structure Thread (I Key Mod Err Parts Val : Type) where
  prog : List (Op I Key Mod)
  hs : List (Option Nat)
  pend : Pending I Key Err Parts Val := .idle
  outs : List (Out Err Parts Val) := []

/-- the current operation completes with a new handle -/
def Thread.finishH (t : Thread I Key Mod Err Parts Val) (hid : Option Nat) (out : Out Err Parts Val) :
    Thread I Key Mod Err Parts Val :=
  { t with pend := .idle, prog := t.prog.tail, hs := t.hs ++ [hid], outs := t.outs ++ [out] }

/-- the current operation completes without a new handle -/
def Thread.finishV (t : Thread I Key Mod Err Parts Val) (out : Out Err Parts Val) : Thread I Key Mod Err Parts Val :=
  { t with pend := .idle, prog := t.prog.tail, outs := t.outs ++ [out] }

/-- a handle-producing operation has obtained its result object: a memoised derivation stores it first -/
def Thread.deliver (t : Thread I Key Mod Err Parts Val) (slot : Option (Nat × String)) (rid : Nat) (q : Parts) :
    Thread I Key Mod Err Parts Val :=
  match slot with
  | some s => { t with pend := .dstore s rid q }
  | none => t.finishH (some rid) (.handle (.ok q))

/-- the body of a derivation: read the (immutable) parts of the arguments, compute, fetch the constructor -/
def modBody (sem : Sem I Key Mod Err Parts Val) (w : World I Key Parts Val) (t : Thread I Key Mod Err Parts Val)
    (h : Nat) (m : Mod) (args : List Nat) (slot : Option (Nat × String)) : Thread I Key Mod Err Parts Val :=
  match objOf w t.hs h, objsOf w t.hs args with
  | some (id, o), some xs =>
    match sem.modify m o.parts (xs.map (·.2.parts)) with
    | .raise e => t.finishH none (.handle (.error e))
    | .same j =>
      let x := ((id, o) :: xs).getD j (id, o)
      t.deliver slot x.1 x.2.parts
    | .via k => { t with pend := .fetched k (w.gen (sem.cacheOf k)) slot }
  | _, _ => t.finishH none .dead

/-- one atomic step of one thread -/
def tstep (sem : Sem I Key Mod Err Parts Val) (pol : I → Policy Key) (w : World I Key Parts Val)
    (t : Thread I Key Mod Err Parts Val) : World I Key Parts Val × Thread I Key Mod Err Parts Val :=
  match t.pend with
  | .computed k g r slot =>
    match r with
    | .error e => (w, t.finishH none (.handle (.error e)))
    | .ok p => ((alloc sem pol w k g p).1, t.deliver slot (alloc sem pol w k g p).2 p)
  | .fetched k g slot =>
    match lookup (w.tables (sem.cacheOf k) g) k with
    | some id =>
      match w.heap[id]? with
      | some o => (w, t.deliver slot id o.parts)
      | none => (w, t.finishH none .dead)                 -- unreachable for coherent worlds
    | none => (w, { t with pend := .computed k g (sem.construct k) slot })
  | .dstore s rid q => ({ w with dmemo := (s, rid) :: w.dmemo }, t.finishH (some rid) (.handle (.ok q)))
  | .readComputed id name v => ({ w with heap := setMemo w.heap id name v }, t.finishV (.value v))
  | .clearFetched i g => ({ w with tables := updTable w.tables i g [] }, t.finishV .unit)
  | .modRun s =>
    match t.prog with
    | .mod h m args :: _ => (w, modBody sem w t h m args (some s))
    | _ => (w, t)                                         -- unreachable
  | .idle =>
    match t.prog with
    | [] => (w, t)
    | .new k :: _ => (w, { t with pend := .fetched k (w.gen (sem.cacheOf k)) none })
    | .read h name :: _ =>
      match objOf w t.hs h with
      | some (id, o) =>
        if name = hashKey then (w, t.finishV (.value (sem.derive o.parts name)))
        else
          match memoGet o.memo name with
          | some v => (w, t.finishV (.value v))
          | none => (w, { t with pend := .readComputed id name (sem.derive o.parts name) })
      | none => (w, t.finishV .dead)
    | .hash h :: _ =>
      match objOf w t.hs h with
      | some (id, o) =>
        match memoGet o.memo hashKey with
        | some v => (w, t.finishV (.value v))
        | none => (w, { t with pend := .readComputed id hashKey (sem.hash o.parts) })
      | none => (w, t.finishV .dead)
    | .cmp c h1 h2 :: _ =>
      match objOf w t.hs h1, objOf w t.hs h2 with
      | some (_, o1), some (_, o2) => (w, t.finishV (.value (sem.cmp c o1.parts o2.parts)))
      | _, _ => (w, t.finishV .dead)
    | .twin h :: _ =>
      match objOf w t.hs h with
      | some (_, o) =>
        ({ w with heap := w.heap ++ [{ parts := o.parts, memo := [] }] },
         t.finishH (some w.heap.length) (.handle (.ok o.parts)))
      | none => (w, t.finishH none .dead)
    | .mod h m args :: _ =>
      match objOf w t.hs h with
      | some (id, _) =>
        match slotOf sem m args id with
        | some s =>
          match lookup w.dmemo s with
          | some rid =>
            match w.heap[rid]? with
            | some r => (w, t.finishH (some rid) (.handle (.ok r.parts)))
            | none => (w, t.finishH none .dead)           -- unreachable for coherent worlds
          | none => (w, { t with pend := .modRun s })
        | none => (w, modBody sem w t h m args none)
      | none => (w, t.finishH none .dead)
    | .clear i :: _ => (w, { t with pend := .clearFetched i (w.gen i) })
    | .configure i c :: _ => (reconfigure w i c, t.finishV .unit)

/-- run a schedule: each entry names the thread that takes the next atomic step -/
def runSched (sem : Sem I Key Mod Err Parts Val) (pol : I → Policy Key) :
    World I Key Parts Val → List (Thread I Key Mod Err Parts Val) → List Nat →
      World I Key Parts Val × List (Thread I Key Mod Err Parts Val)
  | w, ts, [] => (w, ts)
  | w, ts, i :: sched =>
    match ts[i]? with
    | none => runSched sem pol w ts sched
    | some t => runSched sem pol (tstep sem pol w t).1 (ts.set i (tstep sem pol w t).2) sched

end Yarl.MultiCache
