/-
  Str.lean — Python `str` as a list of code points, and the handful of `str`
  methods the yarl sources use.  Core Lean only (no Mathlib), everything total
  and executable.

  A Python string may contain lone surrogates (0xD800–0xDFFF); Lean's `String`
  cannot, so strings are `List Nat`.  `PyStr s` (every code point ≤ 0x10FFFF)
  is the explicit guard for "this list is a Python string".
-/
namespace Yarl

abbrev Str := List Nat

/-- Errors are values.  The kinds Python's partial primitives raise. -/
inductive PyErr where
  | valueError | typeError | indexError | keyError | attributeError
  | unicodeError | memoryError
  | oracleMiss (fn : String) (arg : Str)   -- the driver has no table entry for an external function
  deriving Repr, DecidableEq, BEq, Inhabited

def PyStr (s : Str) : Prop := ∀ c ∈ s, c ≤ 0x10FFFF
def isSurrogate (c : Nat) : Bool := 0xD800 ≤ c && c ≤ 0xDFFF
def NoSurrogate (s : Str) : Prop := ∀ c ∈ s, isSurrogate c = false

instance (s : Str) : Decidable (PyStr s) := by unfold PyStr; infer_instance
instance (s : Str) : Decidable (NoSurrogate s) := by unfold NoSurrogate; infer_instance

/-- ASCII literal helper: `"abc".toStr`. -/
def _root_.String.toStr (s : String) : Str := s.toList.map Char.toNat

def isAscii (s : Str) : Bool := s.all (· < 128)

def mem (c : Nat) (s : Str) : Bool := s.contains c

/-- ASCII `str.lower()` (non-ASCII lower-casing is an oracle parameter elsewhere). -/
def lowerC (c : Nat) : Nat := if 65 ≤ c ∧ c ≤ 90 then c + 32 else c
def lower (s : Str) : Str := s.map lowerC

/-- `s.find(c)`: index of the first occurrence. -/
def find (c : Nat) : Str → Option Nat
  | [] => none
  | x :: xs => if x = c then some 0 else (find c xs).map (· + 1)

/-- `s.partition(c)` → `(before, found, after)`. -/
def partition (c : Nat) : Str → Str × Bool × Str
  | [] => ([], false, [])
  | x :: xs =>
    if x = c then ([], true, xs)
    else let (a, f, b) := partition c xs; (x :: a, f, b)

/-- `s.rpartition(c)` → `(before, found, after)`; when not found Python gives `("", "", s)`. -/
def rpartition (c : Nat) (s : Str) : Str × Bool × Str :=
  let (a, f, b) := partition c s.reverse
  if f then (b.reverse, true, a.reverse) else ([], false, s)

/-- `s.split(c)` (single-character separator): always at least one piece. -/
def splitOn (c : Nat) : Str → List Str
  | [] => [[]]
  | x :: xs =>
    if x = c then [] :: splitOn c xs
    else match splitOn c xs with
      | [] => [[x]]            -- unreachable; keeps the function total
      | p :: ps => (x :: p) :: ps

/-- `sep.join(parts)`. -/
def joinSep (sep : Str) : List Str → Str
  | [] => []
  | [p] => p
  | p :: ps => p ++ sep ++ joinSep sep ps

def joinC (c : Nat) (parts : List Str) : Str := joinSep [c] parts

/-- `s.lstrip(chars)`. -/
def lstripSet (chars : Str) : Str → Str
  | [] => []
  | x :: xs => if mem x chars then lstripSet chars xs else x :: xs

/-- `s.rstrip(c)` for a single character. -/
def rstripC (c : Nat) (s : Str) : Str := (lstripSet [c] s.reverse).reverse

/-- `s.replace(c, "")`. -/
def removeC (c : Nat) (s : Str) : Str := s.filter (· ≠ c)

def startsWith (p s : Str) : Bool := p.isPrefixOf s
def endsWithC (c : Nat) (s : Str) : Bool := s.getLast? = some c

/-- `s.rfind(c)`. -/
def rfind (c : Nat) (s : Str) : Option Nat :=
  match find c s.reverse with
  | none => none
  | some i => some (s.length - 1 - i)

def isDigitC (c : Nat) : Bool := 48 ≤ c && c ≤ 57
def isAlphaC (c : Nat) : Bool := (65 ≤ c && c ≤ 90) || (97 ≤ c && c ≤ 122)
def isHexC (c : Nat) : Bool := isDigitC c || (65 ≤ c && c ≤ 70) || (97 ≤ c && c ≤ 102)

/-- decimal rendering, `str(int)` for naturals (structural on a fuel argument so that
    proofs and kernel evaluation do not go through `Nat.repr`). -/
def natToStrAux : Nat → Nat → Str
  | 0, n => [48 + n % 10]
  | fuel + 1, n => if n < 10 then [48 + n] else natToStrAux fuel (n / 10) ++ [48 + n % 10]
def natToStr (n : Nat) : Str := natToStrAux n n

/-- Lexicographic `<` on strings (Python compares code points). -/
def ltStr : Str → Str → Bool
  | [], [] => false
  | [], _ :: _ => true
  | _ :: _, [] => false
  | a :: as, b :: bs => if a < b then true else if b < a then false else ltStr as bs

/-- Python's ASCII whitespace as accepted by `int()` / `str.strip()` for ASCII text. -/
def isPySpaceC (c : Nat) : Bool := c = 32 || (9 ≤ c && c ≤ 13) || (28 ≤ c && c ≤ 31)

/-- digits with single underscores between them (Python `int()` grammar, base 10). -/
def digitsUnderscore : Str → Option Nat → Bool → Option Nat
  -- acc = value so far (none = no digit yet); lastUnderscore
  | [], acc, lastU => if lastU then none else acc
  | c :: cs, acc, lastU =>
    if isDigitC c then digitsUnderscore cs (some ((acc.getD 0) * 10 + (c - 48))) false
    else if c = 95 then
      match acc with
      | none => none
      | some _ => if lastU then none else digitsUnderscore cs acc true
    else none

/-- `int(s)` for an ASCII-only string: surrounding whitespace, optional sign,
    digits with single interior underscores.  Returns the value as an `Int`.
    Non-ASCII input is outside this function (oracle parameter in `Parse`). -/
def pyIntAscii (s : Str) : Option Int :=
  let s1 := lstripSet ((List.range 128).filter isPySpaceC) s
  let s2 := (lstripSet ((List.range 128).filter isPySpaceC) s1.reverse).reverse
  match s2 with
  | [] => none
  | 43 :: r => (digitsUnderscore r none false).map Int.ofNat
  | 45 :: r => (digitsUnderscore r none false).map (fun n => - Int.ofNat n)
  | r => (digitsUnderscore r none false).map Int.ofNat

/-- `p in s` for a substring `p` (Python's `in` on two strings) -/
def hasSub (p : Str) : Str → Bool
  | [] => p.isEmpty
  | c :: cs => p.isPrefixOf (c :: cs) || hasSub p cs

end Yarl
