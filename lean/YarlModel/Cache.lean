/-
  Cache.lean — the memoisation layer of yarl as a state machine, and a thread
  interleaving semantics over it (properties C08 and C20).

  What is modelled
  * module-level `functools.lru_cache`s in front of the constructors
    (`encode_url`, `pre_encoded_url`, `from_parts`, …): a table `key ↦ object id`
    with an arbitrary capacity (`none` = unbounded, `some 0` = disabled) and an
    ARBITRARY eviction policy (any function returning a sub-list);
  * URL objects: immutable parts plus a per-object memo (`_cache` dict filled by
    `propcache.under_cached_property`, pre-filled by `encode_url`);
  * cached constructors hand out SHARED objects: a cache hit returns the id of an
    existing object, whose memo other callers may already have filled;
  * `cache_clear()`, `cache_configure(size)`; unpickling/copying (a fresh object,
    never placed in a table).
  The pure semantics are parameters: `construct` (what a constructor computes from
  its arguments), `derive` (what an accessor computes from the parts) and
  `prefill` (the entries a constructor pre-computes).
-/
import YarlModel.Str
namespace Yarl.Cache

variable {Key Parts Val : Type} [DecidableEq Key]

structure Sem (Key Parts Val : Type) where
  /-- constructor semantics; `none` = raises -/
  construct : Key → Option Parts
  /-- accessor semantics: name ↦ value (exceptions are values) -/
  derive : Parts → String → Val
  /-- entries pre-computed at construction -/
  prefill : Key → Parts → List (String × Val)

structure Obj (Parts Val : Type) where
  parts : Parts
  memo : List (String × Val)

structure World (Key Parts Val : Type) where
  heap : List (Obj Parts Val) := []          -- object id = index
  table : List (Key × Nat) := []             -- cached constructor: key ↦ object id
  cap : Option Nat := some 128

inductive Op (Key Parts : Type) where
  | new (k : Key)                    -- URL(...) through the cached constructor
  | read (h : Nat) (name : String)   -- an accessor on handle h
  | twin (h : Nat)                   -- pickle / copy / deepcopy of handle h
  | clear
  | configure (cap : Option Nat)

inductive Out (Parts Val : Type) where
  | handle (p : Option Parts)        -- a URL value (its parts) or an exception
  | value (v : Option Val)           -- an accessor result; `none` = dead handle
  | unit

/-- the eviction policy: anything that returns a sub-list of the table -/
structure Policy (Key : Type) where
  evict : List (Key × Nat) → List (Key × Nat)
  sub : ∀ t x, x ∈ evict t → x ∈ t

def lookup (t : List (Key × Nat)) (k : Key) : Option Nat := (t.find? (·.1 = k)).map (·.2)

def memoGet {Val} (m : List (String × Val)) (n : String) : Option Val := (m.find? (·.1 = n)).map (·.2)

def setMemo {Parts Val} (heap : List (Obj Parts Val)) (id : Nat) (n : String) (v : Val) : List (Obj Parts Val) :=
  heap.mapIdx (fun i o => if i = id then { o with memo := (n, v) :: o.memo } else o)

/-- insert into the constructor table, respecting the capacity with an arbitrary eviction -/
def insertTable (pol : Policy Key) (cap : Option Nat) (t : List (Key × Nat)) (k : Key) (id : Nat) : List (Key × Nat) :=
  match cap with
  | some 0 => t
  | some c => if t.length + 1 > c then (k, id) :: pol.evict t else (k, id) :: t
  | none => (k, id) :: t

/-- implementation step: world, handle list (handle ↦ object id, `none` = creation raised) -/
def step (sem : Sem Key Parts Val) (pol : Policy Key) (w : World Key Parts Val) (hs : List (Option Nat)) :
    Op Key Parts → World Key Parts Val × List (Option Nat) × Out Parts Val
  | .new k =>
    match lookup w.table k with
    | some id =>
      match w.heap[id]? with
      | some o => (w, hs ++ [some id], .handle (some o.parts))
      | none => (w, hs ++ [none], .handle none)       -- unreachable for coherent worlds
    | none =>
      match sem.construct k with
      | none => (w, hs ++ [none], .handle none)
      | some p =>
        let id := w.heap.length
        let o : Obj Parts Val := { parts := p, memo := sem.prefill k p }
        ({ w with heap := w.heap ++ [o], table := insertTable pol w.cap w.table k id }, hs ++ [some id], .handle (some p))
  | .read h name =>
    match hs[h]? with
    | some (some id) =>
      match w.heap[id]? with
      | some o =>
        match memoGet o.memo name with
        | some v => (w, hs, .value (some v))
        | none =>
          let v := sem.derive o.parts name
          ({ w with heap := setMemo w.heap id name v }, hs, .value (some v))
      | none => (w, hs, .value none)
    | _ => (w, hs, .value none)
  | .twin h =>
    match hs[h]? with
    | some (some id) =>
      match w.heap[id]? with
      | some o =>
        let id' := w.heap.length
        ({ w with heap := w.heap ++ [{ parts := o.parts, memo := [] }] }, hs ++ [some id'], .handle (some o.parts))
      | none => (w, hs ++ [none], .handle none)
    | _ => (w, hs ++ [none], .handle none)
  | .clear => ({ w with table := [] }, hs, .unit)
  | .configure c => ({ w with table := [], cap := c }, hs, .unit)

def run (sem : Sem Key Parts Val) (pol : Policy Key) :
    World Key Parts Val → List (Option Nat) → List (Op Key Parts) → List (Out Parts Val)
  | _, _, [] => []
  | w, hs, op :: ops =>
    let (w', hs', out) := step sem pol w hs op
    out :: run sem pol w' hs' ops

/-- the cache-free specification: handles are values -/
def specStep (sem : Sem Key Parts Val) (hs : List (Option Parts)) : Op Key Parts → List (Option Parts) × Out Parts Val
  | .new k => (hs ++ [sem.construct k], .handle (sem.construct k))
  | .read h name =>
    match hs[h]? with
    | some (some p) => (hs, .value (some (sem.derive p name)))
    | _ => (hs, .value none)
  | .twin h =>
    match hs[h]? with
    | some (some p) => (hs ++ [some p], .handle (some p))
    | _ => (hs ++ [none], .handle none)
  | .clear => (hs, .unit)
  | .configure _ => (hs, .unit)

def specRun (sem : Sem Key Parts Val) : List (Option Parts) → List (Op Key Parts) → List (Out Parts Val)
  | _, [] => []
  | hs, op :: ops =>
    let (hs', out) := specStep sem hs op
    out :: specRun sem hs' ops

/-! ### threads: every cached call is three atomic steps (look up / compute / store) -/

/-- what a thread is in the middle of -/
inductive Pending (Key Parts Val : Type) where
  | idle
  | newComputed (k : Key) (p : Option Parts)          -- constructor missed the table and has computed its result
  | readComputed (id : Nat) (name : String) (v : Val) -- accessor missed the memo and has computed its value

structure Thread (Key Parts Val : Type) where
  prog : List (Op Key Parts)
  hs : List (Option Nat)
  pend : Pending Key Parts Val := .idle
  outs : List (Out Parts Val) := []

/-- one atomic step of one thread -/
def tstep (sem : Sem Key Parts Val) (pol : Policy Key) (w : World Key Parts Val) (t : Thread Key Parts Val) :
    World Key Parts Val × Thread Key Parts Val :=
  match t.pend with
  | .newComputed k p =>
    -- store step: allocate the object and publish it in the table (another thread may have done so meanwhile: both objects are fine)
    match p with
    | none => (w, { t with pend := .idle, prog := t.prog.tail, hs := t.hs ++ [none], outs := t.outs ++ [.handle none] })
    | some p =>
      let id := w.heap.length
      let o : Obj Parts Val := { parts := p, memo := sem.prefill k p }
      ({ w with heap := w.heap ++ [o], table := insertTable pol w.cap w.table k id },
       { t with pend := .idle, prog := t.prog.tail, hs := t.hs ++ [some id], outs := t.outs ++ [.handle (some p)] })
  | .readComputed id name v =>
    ({ w with heap := setMemo w.heap id name v }, { t with pend := .idle, prog := t.prog.tail, outs := t.outs ++ [.value (some v)] })
  | .idle =>
    match t.prog with
    | [] => (w, t)
    | .new k :: rest =>
      match lookup w.table k with
      | some id =>
        match w.heap[id]? with
        | some o => (w, { t with prog := rest, hs := t.hs ++ [some id], outs := t.outs ++ [.handle (some o.parts)] })
        | none => (w, { t with prog := rest, hs := t.hs ++ [none], outs := t.outs ++ [.handle none] })
      | none => (w, { t with pend := .newComputed k (sem.construct k) })
    | .read h name :: rest =>
      match t.hs[h]? with
      | some (some id) =>
        match w.heap[id]? with
        | some o =>
          match memoGet o.memo name with
          | some v => (w, { t with prog := rest, outs := t.outs ++ [.value (some v)] })
          | none => (w, { t with pend := .readComputed id name (sem.derive o.parts name) })
        | none => (w, { t with prog := rest, outs := t.outs ++ [.value none] })
      | _ => (w, { t with prog := rest, outs := t.outs ++ [.value none] })
    | .twin h :: rest =>
      match t.hs[h]? with
      | some (some id) =>
        match w.heap[id]? with
        | some o =>
          let id' := w.heap.length
          ({ w with heap := w.heap ++ [{ parts := o.parts, memo := [] }] },
           { t with prog := rest, hs := t.hs ++ [some id'], outs := t.outs ++ [.handle (some o.parts)] })
        | none => (w, { t with prog := rest, hs := t.hs ++ [none], outs := t.outs ++ [.handle none] })
      | _ => (w, { t with prog := rest, hs := t.hs ++ [none], outs := t.outs ++ [.handle none] })
    | .clear :: rest => ({ w with table := [] }, { t with prog := rest, outs := t.outs ++ [.unit] })
    | .configure c :: rest => ({ w with table := [], cap := c }, { t with prog := rest, outs := t.outs ++ [.unit] })

/-- run a schedule: each entry names the thread that takes the next atomic step -/
def runSched (sem : Sem Key Parts Val) (pol : Policy Key) :
    World Key Parts Val → List (Thread Key Parts Val) → List Nat → World Key Parts Val × List (Thread Key Parts Val)
  | w, ts, [] => (w, ts)
  | w, ts, i :: sched =>
    match ts[i]? with
    | none => runSched sem pol w ts sched
    | some t =>
      let (w', t') := tstep sem pol w t
      runSched sem pol w' (ts.set i t') sched

/-! ### the compiled quoter's shared static buffer: why a quoter call must be ONE atomic step -/

/-- two writers copying their own text, one character per step, into the same buffer and then reading it back -/
structure BufThread where
  text : List Nat
  pos : Nat := 0
  result : Option (List Nat) := none

def bufStep (buf : List Nat) (t : BufThread) : List Nat × BufThread :=
  if t.pos = 0 ∧ t.result.isNone ∧ t.text ≠ [] then
    -- `_init_writer`: start at position 0 of the shared buffer
    ([t.text.headD 0], { t with pos := 1 })
  else if t.pos < t.text.length then
    ((buf.take t.pos) ++ [t.text.getD t.pos 0], { t with pos := t.pos + 1 })
  else if t.result.isNone then
    (buf, { t with result := some (buf.take t.text.length) })   -- decode the buffer
  else (buf, t)

def bufRun : List Nat → List BufThread → List Nat → List Nat × List BufThread
  | buf, ts, [] => (buf, ts)
  | buf, ts, i :: sched =>
    match ts[i]? with
    | none => bufRun buf ts sched
    | some t =>
      let (buf', t') := bufStep buf t
      bufRun buf' (ts.set i t') sched

end Yarl.Cache
