/-
  Config.lean — the shapes of the data that `Generated.lean` (rewritten from
  /repo on every run by harness/extract_tables.py) fills in.
-/
import YarlModel.Str
namespace Yarl

/-- keyword arguments of one `_Quoter(...)` instance in `_quoters.py` -/
structure QArgs where
  name : String
  safe : Str
  prot : Str
  qs : Bool
  requote : Bool
  deriving Repr, DecidableEq

/-- keyword arguments of one `_Unquoter(...)` instance in `_quoters.py` -/
structure UArgs where
  name : String
  ignoreS : Str
  unsafeS : Str
  qs : Bool
  deriving Repr, DecidableEq

end Yarl
