/-
  Rfc.lean — independent specifications, written from RFC 3986, not from the code.
-/
import YarlModel.Str
namespace Yarl.Rfc

/-! ### §5.2.4 remove_dot_segments, as the RFC writes it: an input buffer and an
    output buffer of characters, five rules applied until the input is empty. -/

/-- remove the last segment and its preceding "/" (if any) from the output buffer -/
def removeLastSegment (out : Str) : Str :=
  -- out is kept as a plain string; drop characters from the end up to and including the last '/'
  let r := out.reverse
  match Yarl.find 47 r with
  | some i => (r.drop (i + 1)).reverse
  | none => []

/-- move the first path segment of the input (including an initial "/" if any, up
    to but not including the next "/") to the end of the output -/
def firstSegment : Str → Str × Str
  | 47 :: rest =>
    let seg := rest.takeWhile (· ≠ 47)
    (47 :: seg, rest.dropWhile (· ≠ 47))
  | inp => (inp.takeWhile (· ≠ 47), inp.dropWhile (· ≠ 47))

def rdsLoop : Nat → Str → Str → Str
  | 0, _, out => out
  | fuel + 1, inp, out =>
    match inp with
    | [] => out
    -- A. prefix "../" or "./"
    | 46 :: 46 :: 47 :: r => rdsLoop fuel r out
    | 46 :: 47 :: r => rdsLoop fuel r out
    -- B. prefix "/./" or "/." (complete segment)
    | 47 :: 46 :: 47 :: r => rdsLoop fuel (47 :: r) out
    | [47, 46] => rdsLoop fuel [47] out
    -- C. prefix "/../" or "/.." (complete segment)
    | 47 :: 46 :: 46 :: 47 :: r => rdsLoop fuel (47 :: r) (removeLastSegment out)
    | [47, 46, 46] => rdsLoop fuel [47] (removeLastSegment out)
    -- D. input is "." or ".."
    | [46] => out
    | [46, 46] => out
    -- E. move first segment
    | _ =>
      let (seg, rest) := firstSegment inp
      rdsLoop fuel rest (out ++ seg)

/-- RFC 3986 §5.2.4 -/
def removeDotSegments (path : Str) : Str := rdsLoop (path.length + 1) path []

end Yarl.Rfc
