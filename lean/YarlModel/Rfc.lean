/-
  Rfc.lean — independent specifications, written from RFC 3986, not from the code.
-/
import YarlModel.Str
namespace Yarl.Rfc

/-! ### §5.2.4 remove_dot_segments, as the RFC writes it: an input buffer and an
    output buffer of characters, five rules applied until the input is empty. -/

/-- remove the last segment and its preceding "/" (if any) from the output buffer -/
def removeLastSegment (out : Str) : Str :=
  -- out is kept as a plain string; drop characters from the end up to and including the last '/'
  let r := out.reverse
  match Yarl.find 47 r with
  | some i => (r.drop (i + 1)).reverse
  | none => []

/-- move the first path segment of the input (including an initial "/" if any, up
    to but not including the next "/") to the end of the output -/
def firstSegment : Str → Str × Str
  | 47 :: rest =>
    let seg := rest.takeWhile (· ≠ 47)
    (47 :: seg, rest.dropWhile (· ≠ 47))
  | inp => (inp.takeWhile (· ≠ 47), inp.dropWhile (· ≠ 47))

def rdsLoop : Nat → Str → Str → Str
  | 0, _, out => out
  | fuel + 1, inp, out =>
    match inp with
    | [] => out
    -- A. prefix "../" or "./"
    | 46 :: 46 :: 47 :: r => rdsLoop fuel r out
    | 46 :: 47 :: r => rdsLoop fuel r out
    -- B. prefix "/./" or "/." (complete segment)
    | 47 :: 46 :: 47 :: r => rdsLoop fuel (47 :: r) out
    | [47, 46] => rdsLoop fuel [47] out
    -- C. prefix "/../" or "/.." (complete segment)
    | 47 :: 46 :: 46 :: 47 :: r => rdsLoop fuel (47 :: r) (removeLastSegment out)
    | [47, 46, 46] => rdsLoop fuel [47] (removeLastSegment out)
    -- D. input is "." or ".."
    | [46] => out
    | [46, 46] => out
    -- E. move first segment
    | _ =>
      let (seg, rest) := firstSegment inp
      rdsLoop fuel rest (out ++ seg)

/-- RFC 3986 §5.2.4 -/
def removeDotSegments (path : Str) : Str := rdsLoop (path.length + 1) path []

end Yarl.Rfc

namespace Yarl.Rfc

/-! ### Appendix B: the decomposition `^(([^:/?#]+):)?(//([^/?#]*))?([^?#]*)(\?([^#]*))?(#(.*))?`
    read left to right.  The scheme group is restricted to a given character set
    (yarl, like urllib, only recognises `scheme_chars+`) and folded to lower case.
    An absent and an empty authority/query/fragment are both the empty string. -/

structure Parts5 where
  scheme : Str
  authority : Str
  path : Str
  query : Str
  fragment : Str
  deriving Repr, DecidableEq

def isDelim3 (c : Nat) : Bool := c = 47 || c = 63 || c = 35      -- / ? #
def isDelim2 (c : Nat) : Bool := c = 63 || c = 35                -- ? #

/-- the longest prefix free of `:` … followed by `:`; accepted only if non-empty and made of scheme characters -/
def schemeOf (schemeChars : Str) (s : Str) : Str × Str :=
  let pre := s.takeWhile (· ≠ 58)
  let post := s.dropWhile (· ≠ 58)
  match post with
  | 58 :: rest => if !pre.isEmpty && pre.all (fun c => schemeChars.contains c) then (Yarl.lower pre, rest) else ([], s)
  | _ => ([], s)

def appendixB (schemeChars : Str) (s : Str) : Parts5 :=
  let (scheme, r1) := schemeOf schemeChars s
  let (authority, r2) :=
    match r1 with
    | 47 :: 47 :: r => (r.takeWhile (fun c => !isDelim3 c), r.dropWhile (fun c => !isDelim3 c))
    | _ => ([], r1)
  let path := r2.takeWhile (fun c => !isDelim2 c)
  let r3 := r2.dropWhile (fun c => !isDelim2 c)
  let (query, r4) :=
    match r3 with
    | 63 :: r => (r.takeWhile (· ≠ 35), r.dropWhile (· ≠ 35))
    | _ => ([], r3)
  let fragment := match r4 with
    | 35 :: r => r
    | _ => []
  { scheme := scheme, authority := authority, path := path, query := query, fragment := fragment }

/-! ### §5.2.2 / §5.2.3 reference resolution (non-strict parser: a reference scheme equal
    to the base scheme is ignored).  "defined" is "non-empty" (yarl does not
    distinguish an absent from an empty component). -/

/-- §5.2.3 merge -/
def merge (base : Parts5) (refPath : Str) : Str :=
  if !base.authority.isEmpty && base.path.isEmpty then 47 :: refPath
  else
    -- all but the last segment of the base path (up to and including the right-most "/")
    let r := base.path.reverse.dropWhile (· ≠ 47)
    r.reverse ++ refPath

def resolve (base ref : Parts5) : Parts5 :=
  let refScheme := if ref.scheme = base.scheme then [] else ref.scheme      -- non-strict
  if !refScheme.isEmpty then
    { scheme := ref.scheme, authority := ref.authority, path := removeDotSegments ref.path,
      query := ref.query, fragment := ref.fragment }
  else if !ref.authority.isEmpty then
    { scheme := base.scheme, authority := ref.authority, path := removeDotSegments ref.path,
      query := ref.query, fragment := ref.fragment }
  else if ref.path.isEmpty then
    { scheme := base.scheme, authority := base.authority, path := base.path,
      query := if !ref.query.isEmpty then ref.query else base.query, fragment := ref.fragment }
  else if ref.path.head? = some 47 then
    { scheme := base.scheme, authority := base.authority, path := removeDotSegments ref.path,
      query := ref.query, fragment := ref.fragment }
  else
    { scheme := base.scheme, authority := base.authority, path := removeDotSegments (merge base ref.path),
      query := ref.query, fragment := ref.fragment }

/-! ### character classes of RFC 3986 §2 / §3, per component -/

def isAlpha (c : Nat) : Bool := (65 ≤ c && c ≤ 90) || (97 ≤ c && c ≤ 122)
def isDigit (c : Nat) : Bool := 48 ≤ c && c ≤ 57
def unreserved (c : Nat) : Bool := isAlpha c || isDigit c || c = 45 || c = 46 || c = 95 || c = 126
def subDelims (c : Nat) : Bool :=
  c = 33 || c = 36 || c = 38 || c = 39 || c = 40 || c = 41 || c = 42 || c = 43 || c = 44 || c = 59 || c = 61
/-- pchar without pct-encoded -/
def pcharLit (c : Nat) : Bool := unreserved c || subDelims c || c = 58 || c = 64
/-- userinfo literal characters -/
def userinfoLit (c : Nat) : Bool := unreserved c || subDelims c || c = 58
/-- literal characters of a path (segments plus the separator) -/
def pathLit (c : Nat) : Bool := pcharLit c || c = 47
/-- query / fragment literal characters -/
def queryLit (c : Nat) : Bool := pcharLit c || c = 47 || c = 63

end Yarl.Rfc
