/-
  QuoteW.lean — the compiled quoter of `_quoting_c.pyx` written THROUGH the buffer
  writer of `YarlModel/Writer.lean`.

  `YarlModel/Quote.lean` gives `quoteC` as a batch function (`cOut` = what is written,
  `cChanged` = the final value of `writer.changed`).  Here the same loop is transcribed
  statement by statement, every output character going through `Writer.writeChar`
  (`_write_char`): the buffer starts as the static `BUFFER` (`_init_writer`), grows by
  `BUF_SIZE` through `PyMem_Malloc` at the first overflow and `PyMem_Realloc` afterwards,
  each request may be refused by the oracle `faults` (then `_write_char` returns -1, the
  loop `raise`s MemoryError, `try/finally` runs `_release_writer`).

      _init_writer / _release_writer      Writer.init / Writer.release
      _write_char(writer, ch, changed)    QuoteW.writeChar   (Writer.writeChar + `changed |= …`)
      _write_pct                          QuoteW.writePct
      _write_utf8                         QuoteW.writeUtf8
      _Quoter._write                      QuoteW.write
      _Quoter._do_quote                   QuoteW.doQuote  (+ the final `if not writer.changed`)
      _Quoter._do_quote_or_skip           QuoteW.quoteCW
      _Unquoter._do_unquote               QuoteW.unquoteCW (its two inner `_Quoter` calls go
                                          through `quoteCW`; its own output is a Python list,
                                          not a Writer)

  The buffer size is a parameter `n` (`Gen.bufSize` = 8192 in the headline statements).
  No Mathlib; everything is executable.
-/
import YarlModel.Unquote
import YarlModel.Writer
set_option linter.unusedVariables false
namespace Yarl.QuoteW
open Yarl

/-- the C `struct Writer`: `buf`/`size`/`pos` (and the heap bookkeeping) are `Writer.St`;
    `changed` is the fourth field -/
structure W where
  st : Writer.St
  changed : Bool := false
  deriving Repr

/-- `_init_writer`: static buffer, `pos = 0`, `changed = 0` -/
def initW (n : Nat) : W := { st := Writer.init n, changed := false }

/-- outcome of a write: `.ok w` = returned 0 with the writer now `w`;
    `.error w` = returned -1 (MemoryError set), the writer left as `w` -/
abbrev Res := Except W W

def Res.st : Res → Writer.St
  | .ok w => w.st
  | .error w => w.st

def Res.isOk : Res → Bool
  | .ok _ => true
  | .error _ => false

section
variable (n : Nat) (faults : Nat → Bool)

/-- `_write_char(writer, ch, changed)`: grow if `pos == size` (may fail: `return -1` BEFORE anything
    is modified), store the character, `writer.changed |= changed` — on the growth path too -/
def writeChar (w : W) (ch : Nat) (changed : Bool) : Res :=
  match Writer.writeChar n faults w.st ch with
  | none => .error w
  | some st' => .ok { st := st', changed := w.changed || changed }

/-- `_write_pct`: `%`, high nibble, low nibble; stops at the first failing write -/
def writePct (w : W) (b : Nat) (changed : Bool) : Res := do
  let w ← writeChar n faults w 37 changed
  let w ← writeChar n faults w (toHex (b / 16)) changed
  writeChar n faults w (toHex (b % 16)) changed

/-- `_write_utf8`, branch by branch (`0xc0 | (utf >> 6)` is `0xC0 + c / 64` in its range, etc.;
    lone surrogates and values above 0x10FFFF `return 0` without writing) -/
def writeUtf8 (w : W) (c : Nat) : Res :=
  if c < 0x80 then writePct n faults w c true
  else if c < 0x800 then do
    let w ← writePct n faults w (0xC0 + c / 64) true
    writePct n faults w (0x80 + c % 64) true
  else if 0xD800 ≤ c ∧ c ≤ 0xDFFF then .ok w
  else if c < 0x10000 then do
    let w ← writePct n faults w (0xE0 + c / 4096) true
    let w ← writePct n faults w (0x80 + (c / 64) % 64) true
    writePct n faults w (0x80 + c % 64) true
  else if c > 0x10FFFF then .ok w
  else do
    let w ← writePct n faults w (0xF0 + c / 262144) true
    let w ← writePct n faults w (0x80 + (c / 4096) % 64) true
    let w ← writePct n faults w (0x80 + (c / 64) % 64) true
    writePct n faults w (0x80 + c % 64) true

/-- `_Quoter._write` -/
def write (t : QTab) (w : W) (c : Nat) : Res :=
  if t.qs = true ∧ c = 32 then writeChar n faults w 43 true
  else if c < 128 ∧ t.safe c = true then writeChar n faults w c false
  else writeUtf8 n faults w c

/-- the `while idx < length` loop of `_Quoter._do_quote` (same traversal as `cOut` / `cChanged`);
    every `if … < 0: raise` is the `.error` propagation of the `Except` monad -/
def doQuote (t : QTab) : W → Str → Res
  | w, [] => .ok w
  | w, c :: rest =>
    if c = 37 ∧ t.requote = true then
      match h : takeEscape restoreCh rest with
      | some (v, d1, d2, rest') =>
        if v < 128 ∧ t.prot v = true then
          (writePct n faults w v true).bind (fun w' => doQuote t w' rest')
        else if v < 128 ∧ t.safe v = true then
          (writeChar n faults w v true).bind (fun w' => doQuote t w' rest')
        else
          (writePct n faults w v (isLowerHex d1 || isLowerHex d2)).bind (fun w' => doQuote t w' rest')
      | none => (write n faults t w 37).bind (fun w' => doQuote t w' rest)
    else (write n faults t w c).bind (fun w' => doQuote t w' rest)
termination_by _ l => l.length
decreasing_by
  all_goals simp_wf
  all_goals (try have := takeEscape_length h)
  all_goals omega

/-- `_Quoter._do_quote_or_skip`: drop lone surrogates, fast path (no writer is touched: the
    second component is then the untouched initial state), otherwise `_init_writer`, the loop,
    `return val if not writer.changed else PyUnicode_DecodeASCII(writer.buf, writer.pos)`, and
    `_release_writer` in `finally` — on the MemoryError path as well.
    Result: what the call returns / raises, and the final writer state (heap bookkeeping). -/
def quoteCW (n : Nat) (t : QTab) (faults : Nat → Bool) (s : Str) : Except PyErr Str × Writer.St :=
  let v := stripSurr s
  if allSafe t v then (.ok v, Writer.init n)
  else
    match doQuote n faults t (initW n) v with
    | .ok w => (.ok (if w.changed then w.st.data else v), Writer.release w.st)
    | .error w => (.error .memoryError, Writer.release w.st)

end

/-! ### several calls on one interpreter

  The fault oracle is indexed by the allocation requests of the whole process: a call that
  made `k` requests leaves the oracle shifted by `k` for the next call. -/

/-- the oracle as seen by a call that starts after `k` requests were already made -/
def shift (faults : Nat → Bool) (k : Nat) : Nat → Bool := fun i => faults (k + i)

/-- allocation requests made by one call: the successful ones are counted by the writer; a call
    that raised MemoryError made exactly one more (the refused one, after which it stopped) -/
def requests (r : Except PyErr Str × Writer.St) : Nat :=
  r.2.allocs + (match r.1 with | .ok _ => 0 | .error _ => 1)

/-- a sequence of calls of one `_Quoter` instance, `k` requests having been made before:
    results (and final writer states) in order -/
def session (n : Nat) (t : QTab) (faults : Nat → Bool) : Nat → List Str → List (Except PyErr Str × Writer.St)
  | _, [] => []
  | k, s :: ss =>
    let r := quoteCW n t (shift faults k) s
    r :: session n t faults (k + requests r) ss

/-! ### the compiled unquoter

  `_Unquoter._do_unquote` collects its output in a Python list (no `Writer`); the only
  writer activity is inside `self._qs_quoter(unquoted)` / `self._quoter(unquoted)`, two
  ordinary `_Quoter.__call__`s on a one-character string.  `k` counts the allocation
  requests made so far in this call (for the shared oracle). -/

/-- `uqEmit` with the inner quoter calls going through `quoteCW`; returns the requests made -/
def uqEmitW (n : Nat) (faults : Nat → Bool) (u : UTab) (k : Nat) (ch : Nat) : Except PyErr Str × Nat :=
  if u.qs = true ∧ mem ch "+=&;".toStr = true then
    let r := quoteCW n u.qsQuoter (shift faults k) [ch]
    (r.1, k + r.2.allocs)
  else if mem ch u.unsafeS = true ∨ mem ch u.ignoreS = true then
    let r := quoteCW n u.quoter (shift faults k) [ch]
    (r.1, k + r.2.allocs)
  else (.ok [ch], k)

/-- prepend already-produced text to the rest of the output (an exception in the rest wins) -/
def pre (p : Str) (r : Except PyErr Str) : Except PyErr Str := r.map (p ++ ·)

/-- `uqLoop .c` with `uqEmitW`: an inner MemoryError propagates out of `_do_unquote` -/
def uqLoopW (n : Nat) (faults : Nat → Bool) (u : UTab) : Nat → List Nat → Str → Str → Except PyErr Str
  | _, _, ptxt, [] => .ok ptxt
  | k, pend, ptxt, c :: rest =>
    if c = 37 then
      match h : takeEscape restoreCh rest with
      | some (v, d1, d2, rest') =>
        match decodeBuf (pend ++ [v]) with
        | .incomplete => uqLoopW n faults u k (pend ++ [v]) (ptxt ++ [37, d1, d2]) rest'
        | .char ch =>
          match uqEmitW n faults u k ch with
          | (.ok e, k') => pre e (uqLoopW n faults u k' [] [] rest')
          | (.error err, _) => .error err
        | .invalid =>
          pre ptxt
          (match decodeBuf [v] with
           | .incomplete => uqLoopW n faults u k [v] [37, d1, d2] rest'
           | .char ch =>
             match uqEmitW n faults u k ch with
             | (.ok e, k') => pre e (uqLoopW n faults u k' [] [] rest')
             | (.error err, _) => .error err
           | .invalid => pre [37, d1, d2] (uqLoopW n faults u k [] [] rest'))
      | none => pre (ptxt ++ uqPlain u 37) (uqLoopW n faults u k [] [] rest)
    else pre (ptxt ++ uqPlain u c) (uqLoopW n faults u k [] [] rest)
termination_by _ _ _ l => l.length
decreasing_by
  all_goals simp_wf
  all_goals (try have := takeEscape_length h)
  all_goals omega

/-- `_Unquoter._do_unquote`.  The loop runs first (it is where an exception can arise); the
    `changed` flag then decides between `val` and the joined list, as in `unquoteC`. -/
def unquoteCW (n : Nat) (u : UTab) (faults : Nat → Bool) (s : Str) : Except PyErr Str :=
  match uqLoopW n faults u 0 [] [] s with
  | .error e => .error e
  | .ok r => .ok (if cUnqChanged u s then r else s)

end Yarl.QuoteW
