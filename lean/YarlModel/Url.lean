/-
  Url.lean — the `URL` class of `yarl/_url.py`: constructor (both modes), build,
  __str__, accessors, modifiers, join, comparison keys, human_repr.

  A URL is its five stored parts plus (for URLs made by the auto-encoding
  constructor) the cache entries `encode_url` pre-computes.  Everything is a
  function of those; caches other than the pre-fill are in Cache.lean.
-/
import YarlModel.Host
import YarlModel.Query
import YarlModel.Path
namespace Yarl

structure Env where
  b : Backend
  o : Oracles

/-- cache entries written by `encode_url` when the URL has an authority -/
structure NetPre where
  rawHost : Option Str
  explicitPort : Option Nat
  rawUser : Option Str
  rawPassword : Option Str
  deriving Repr, DecidableEq

structure Url where
  scheme : Str
  netloc : Str
  path : Str
  query : Str
  fragment : Str
  /-- `some` only for results of `encode_url` with a non-empty authority in the input -/
  pre : Option NetPre := none
  deriving Repr, DecidableEq

def Url.ofParts (p : Parts) : Url :=
  { scheme := p.scheme, netloc := p.netloc, path := p.path, query := p.query, fragment := p.fragment }

def Url.parts (u : Url) : Parts :=
  { scheme := u.scheme, netloc := u.netloc, path := u.path, query := u.query, fragment := u.fragment }

/-- `from_parts(...)` -/
def fromParts (scheme netloc path query fragment : Str) : Url :=
  { scheme := scheme, netloc := netloc, path := path, query := query, fragment := fragment }

def defaultPort (scheme : Str) : Option Nat := (Gen.defaultPorts.find? (·.1 = scheme)).map (·.2)

def q (e : Env) (a : QArgs) (s : Str) : Str := a.run e.b s
def uq (e : Env) (a : UArgs) (s : Str) : Str := a.run e.b s

/-- `REQUOTER(x) if x else x` on an optional string -/
def requoteOpt (e : Env) (x : Option Str) : Option Str :=
  x.map (fun s => if s.isEmpty then s else q e Gen.REQUOTER s)

/-- `encode_url(url_str)` -/
def encodeUrl (e : Env) (s : Str) : R Url := do
  let p ← splitUrl e.o s
  let (netloc, pre) ←
    (if p.netloc.isEmpty then pure (([] : Str), (none : Option NetPre))
    else do
      let np ← (if mem 58 p.netloc || mem 64 p.netloc || mem 91 p.netloc then splitNetloc e.o p.netloc
                else pure { user := none, password := none, host := some p.netloc, port := none } : R NetlocParts)
      let host0 ← (match np.host with
        | some h => pure h
        | none => if Gen.schemeRequiresHost.contains p.scheme then .error .valueError else pure [] : R Str)
      let host1 ← encodeHost e.o host0 false
      -- a bracketed host that is not an IPv6 address keeps the brackets the input had
      let host := if mem 91 (rpartition 64 p.netloc).2.2 && !mem 91 host1 then [91] ++ host1 ++ [93] else host1
      let rawHost := if mem 91 host then (host.drop 1).dropLast else host
      if np.password.isNone && np.user.isNone then
        let netloc := match np.port with
          | none => host
          | some pt => host ++ [58] ++ natToStr pt
        pure (netloc, some { rawHost := some rawHost, explicitPort := np.port, rawUser := none, rawPassword := none })
      else
        -- `(REQUOTER(username) or None) if username else username`: a user that requotes to "" is no user
        let ru := (requoteOpt e np.user).bind (fun s => if s.isEmpty then none else some s)
        let rp := requoteOpt e np.password
        let netloc := makeNetloc (q e Gen.QUOTER) ru rp (some host) np.port false
        pure (netloc, some { rawHost := some rawHost, explicitPort := np.port, rawUser := ru, rawPassword := rp })
     : R (Str × Option NetPre))
  let path :=
    if p.path.isEmpty then p.path
    else
      let p1 := q e Gen.PATH_REQUOTER p.path
      if !netloc.isEmpty && mem 46 p1 then normalizePath p1 else p1
  let query := if p.query.isEmpty then p.query else q e Gen.QUERY_REQUOTER p.query
  let fragment := if p.fragment.isEmpty then p.fragment else q e Gen.FRAGMENT_REQUOTER p.fragment
  pure { scheme := p.scheme, netloc := netloc, path := path, query := query, fragment := fragment, pre := pre }

/-- `pre_encoded_url(url_str)` -/
def preEncodedUrl (e : Env) (s : Str) : R Url := do
  let p ← splitUrl e.o s
  pure (Url.ofParts p)

/-! ### netloc-derived accessors -/

/-- `_cache_netloc`: what the lazy path computes from the stored netloc -/
def lazyNet (e : Env) (u : Url) : R NetPre := do
  let np ← splitNetloc e.o u.netloc
  let host := match np.host with
    | none => if u.netloc.isEmpty then none else some []
    | some h => some h
  pure { rawHost := host, explicitPort := np.port, rawUser := np.user, rawPassword := np.password }

def net (e : Env) (u : Url) : R NetPre :=
  match u.pre with
  | some p => pure p
  | none => lazyNet e u

def rawUser (e : Env) (u : Url) : R (Option Str) := (net e u).map (·.rawUser)
def rawPassword (e : Env) (u : Url) : R (Option Str) := (net e u).map (·.rawPassword)
def rawHost (e : Env) (u : Url) : R (Option Str) := (net e u).map (·.rawHost)
def explicitPort (e : Env) (u : Url) : R (Option Nat) := (net e u).map (·.explicitPort)

def user (e : Env) (u : Url) : R (Option Str) := do pure ((← rawUser e u).map (uq e Gen.UNQUOTER))
def password (e : Env) (u : Url) : R (Option Str) := do pure ((← rawPassword e u).map (uq e Gen.UNQUOTER))

/-- `URL.host` -/
def host (e : Env) (u : Url) : R (Option Str) := do
  match ← rawHost e u with
  | none => pure none
  | some raw =>
    let lastDigit ← (match raw.getLast? with
      | some l => isDigitChar e.o l
      | none => pure false : R Bool)
    -- `raw[-1].isdigit() and "xn--" not in raw or ":" in raw`: IP addresses are never IDNA encoded
    if (lastDigit && !hasSub [120, 110, 45, 45] raw) || mem 58 raw then pure (some raw)
    else do pure (some (← idnaDecode e.o raw))

def hostSubcomponent (e : Env) (u : Url) : R (Option Str) := do
  pure ((← rawHost e u).map (fun raw => if mem 58 raw then [91] ++ raw ++ [93] else raw))

def hostPortSubcomponent (e : Env) (u : Url) : R (Option Str) := do
  match ← rawHost e u with
  | none => pure none
  | some raw0 =>
    let raw := if raw0.getLast? = some 46 then rstripC 46 raw0 else raw0
    let port ← explicitPort e u
    let br := if mem 58 raw then [91] ++ raw ++ [93] else raw
    match port with
    | none => pure (some br)
    | some p => if some p = defaultPort u.scheme then pure (some br) else pure (some (br ++ [58] ++ natToStr p))

def port (e : Env) (u : Url) : R (Option Nat) := do
  match ← explicitPort e u with
  | some p => pure (some p)
  | none => pure (defaultPort u.scheme)

def isDefaultPort (e : Env) (u : Url) : R Bool := do
  match ← explicitPort e u with
  | none => pure (!u.netloc.isEmpty)
  | some p => pure (some p = defaultPort u.scheme)

def authority (e : Env) (u : Url) : R Str := do
  pure (makeNetloc (q e Gen.QUOTER) (← user e u) (← password e u) (← host e u) (← port e u) false)

/-- `__str__` -/
def str (e : Env) (u : Url) : R Str := do
  let path := if u.path.isEmpty && !u.netloc.isEmpty && (!u.query.isEmpty || !u.fragment.isEmpty) then [47] else u.path
  let ep ← explicitPort e u
  let netloc ← (match ep with
    | some p =>
      if some p = defaultPort u.scheme then do
        let h ← hostSubcomponent e u
        pure (makeNetloc (q e Gen.QUOTER) (← rawUser e u) (← rawPassword e u) h none false)
      else pure u.netloc
    | none => pure u.netloc : R Str)
  pure (unsplitResult u.scheme netloc path u.query u.fragment)

/-! ### path / query / fragment accessors -/

def rawPath (u : Url) : Str := if !u.path.isEmpty || u.netloc.isEmpty then u.path else [47]

def pathDecoded (e : Env) (u : Url) : Str :=
  if !u.path.isEmpty then uq e Gen.PATH_UNQUOTER u.path else if !u.netloc.isEmpty then [47] else []

def pathSafe (e : Env) (u : Url) : Str :=
  if !u.path.isEmpty then uq e Gen.PATH_SAFE_UNQUOTER u.path else if !u.netloc.isEmpty then [47] else []

def queryPairs (u : Url) : List (Str × Str) := parseQsl u.query

def queryString (e : Env) (u : Url) : Str := if !u.query.isEmpty then uq e Gen.QS_UNQUOTER u.query else []

def pathQs (e : Env) (u : Url) : Str :=
  let qs := queryString e u
  if qs.isEmpty then pathDecoded e u else pathDecoded e u ++ [63] ++ qs

def rawPathQs (u : Url) : Str :=
  if !u.query.isEmpty then
    (if !u.path.isEmpty || u.netloc.isEmpty then u.path ++ [63] ++ u.query else [47, 63] ++ u.query)
  else rawPath u

def fragmentDecoded (e : Env) (u : Url) : Str :=
  if !u.fragment.isEmpty then uq e Gen.UNQUOTER u.fragment else []

/-- `raw_parts` -/
def rawParts (u : Url) : List Str :=
  if !u.netloc.isEmpty then
    if !u.path.isEmpty then [47] :: splitOn 47 (u.path.drop 1) else [[47]]
  else
    match u.path with
    | 47 :: rest => [47] :: splitOn 47 rest
    | p => splitOn 47 p

def partsDecoded (e : Env) (u : Url) : List Str := (rawParts u).map (uq e Gen.UNQUOTER)

/-- `parts[-1]` raises IndexError on an empty tuple; `raw_parts` is never empty, the model keeps the error kind -/
def rawName (u : Url) : R Str :=
  let parts := rawParts u
  if u.netloc.isEmpty then
    match parts.getLast? with
    | some l => pure l
    | none => .error .indexError
  else
    match (parts.drop 1).getLast? with
    | some l => pure l
    | none => pure []

def name (e : Env) (u : Url) : R Str := do pure (uq e Gen.UNQUOTER (← rawName u))

def rawSuffix (u : Url) : R Str := do
  let n ← rawName u
  match rfind 46 n with
  | some i => if 0 < i ∧ i + 1 < n.length then pure (n.drop i) else pure []
  | none => pure []

def suffix (e : Env) (u : Url) : R Str := do pure (uq e Gen.UNQUOTER (← rawSuffix u))

def rawSuffixes (u : Url) : R (List Str) := do
  let n ← rawName u
  if n.getLast? = some 46 then pure []
  else
    let n' := lstripSet [46] n
    pure (((splitOn 46 n').drop 1).map (fun s => 46 :: s))

def suffixes (e : Env) (u : Url) : R (List Str) := do pure ((← rawSuffixes u).map (uq e Gen.UNQUOTER))

/-- `parent` -/
def parent (u : Url) : Url :=
  if u.path.isEmpty || u.path = [47] then
    if !u.fragment.isEmpty || !u.query.isEmpty then fromParts u.scheme u.netloc u.path [] [] else u
  else
    let ps := splitOn 47 u.path
    let pp := joinC 47 ps.dropLast
    -- "/name" -> "/" without an authority (fix 264b96e): the absolute path must not become relative
    let pp := if pp.isEmpty && u.path.head? = some 47 && u.netloc.isEmpty then [47] else pp
    fromParts u.scheme u.netloc pp [] []

/-- `origin()` -/
def origin (e : Env) (u : Url) : R Url := do
  if u.netloc.isEmpty then .error .valueError
  else if u.scheme.isEmpty then .error .valueError
  else if mem 64 u.netloc then
    let h ← hostSubcomponent e u
    let p ← explicitPort e u
    pure (fromParts u.scheme (makeNetloc (q e Gen.QUOTER) none none h p false) [] [] [])
  else if u.path.isEmpty && u.query.isEmpty && u.fragment.isEmpty then pure u
  else pure (fromParts u.scheme u.netloc [] [] [])

/-- `relative()` -/
def relative (u : Url) : R Url :=
  if u.netloc.isEmpty then .error .valueError else pure (fromParts [] [] u.path u.query u.fragment)

/-! ### comparison keys -/

def eqKey (u : Url) : Parts :=
  { scheme := u.scheme, netloc := u.netloc,
    path := if u.path.isEmpty && !u.netloc.isEmpty then [47] else u.path,
    query := u.query, fragment := u.fragment }

def Url.beq (a b : Url) : Bool := eqKey a = eqKey b

/-- tuple comparison of five strings -/
def ltParts (a b : Parts) : Bool :=
  if a.scheme ≠ b.scheme then ltStr a.scheme b.scheme
  else if a.netloc ≠ b.netloc then ltStr a.netloc b.netloc
  else if a.path ≠ b.path then ltStr a.path b.path
  else if a.query ≠ b.query then ltStr a.query b.query
  else ltStr a.fragment b.fragment

def Url.lt (a b : Url) : Bool := ltParts (eqKey a) (eqKey b)
def Url.le (a b : Url) : Bool := a.lt b || eqKey a = eqKey b
def Url.gt (a b : Url) : Bool := b.lt a
def Url.ge (a b : Url) : Bool := b.le a

def Url.truthy (u : Url) : Bool := !u.netloc.isEmpty || !u.path.isEmpty || !u.query.isEmpty || !u.fragment.isEmpty

/-- pickle / copy / deepcopy: only the five parts survive -/
def pickleTwin (u : Url) : Url := { u with pre := none }

/-! ### build -/

structure BuildArgs where
  scheme : Str := []
  authority : Str := []
  user : Option Str := none
  password : Option Str := none
  host : Str := []
  port : Option Int := none         -- an `int`; bool / other types are `portKind`
  portKind : Nat := 0               -- 0 = int-or-None as given, 1 = bool, 2 = non-int
  path : Str := []
  query : QArg := .none
  queryString : Str := []
  fragment : Str := []
  encoded : Bool := false

def qargTruthy : QArg → Bool
  | .none => false
  | .str s => !s.isEmpty
  | .mapping l => !l.isEmpty
  | .pairs l => !l.isEmpty
  | .bytes empty => !empty
  | .other => true
  | .noArgs => false

/-- `build_pre_encoded_url` -/
def buildPreEncoded (e : Env) (a : BuildArgs) (port : Option Nat) (queryString : Str) : Url :=
  let netloc :=
    if !a.authority.isEmpty then a.authority
    else if !a.host.isEmpty then
      let port := match port with
        | some p => if some p = defaultPort a.scheme then none else some p
        | none => none
      if a.user.isNone && a.password.isNone then
        (match port with | none => a.host | some p => a.host ++ [58] ++ natToStr p)
      else makeNetloc (q e Gen.QUOTER) a.user a.password (some a.host) port false
    else []
  fromParts a.scheme netloc a.path queryString a.fragment

def lowerAny (e : Env) (s : Str) : R Str := if isAscii s then pure (lower s) else ask "lowerU" s (e.o.lowerU s)

/-- `URL.build(...)` -/
def build (e : Env) (a : BuildArgs) : R Url := do
  -- `port is not None` (fix: a port of 0 is a port — before, both checks tested the truthiness of `port`)
  let portTruthy := match a.portKind, a.port with
    | 0, none => false
    | _, _ => true
  if !a.authority.isEmpty && (a.user.any (!·.isEmpty) || a.password.any (!·.isEmpty) || !a.host.isEmpty || portTruthy) then
    .error .valueError
  else if a.portKind ≠ 0 then .error .typeError
  else if (match a.port with | some p => !(0 ≤ p ∧ p ≤ 65535) | none => false) then .error .valueError
  else if portTruthy && a.host.isEmpty then .error .valueError
  else if qargTruthy a.query && !a.queryString.isEmpty then .error .valueError
  else do
    let port : Option Nat := a.port.map Int.toNat
    let queryString ← (if qargTruthy a.query then do
        pure ((← getStrQuery e.b a.query).getD [])
      else pure a.queryString : R Str)
    if a.encoded then pure (buildPreEncoded e a port queryString)
    else do
      -- `scheme = scheme.lower()` (fix e21485a): stored lower-case, as by the parser and by with_scheme()
      let a := { a with scheme := ← lowerAny e a.scheme }
      let netloc ←
        (if !a.authority.isEmpty then do
          -- the NFKC screen of a non-ASCII authority, as for a parsed URL (fix c2c2803)
          if !isAscii a.authority then checkNetloc e.o a.authority
          let np ← splitNetloc e.o a.authority
          let h1 ← (match np.host with
            | some h => encodeHost e.o h false
            | none => pure [] : R Str)
          -- a bracketed host that is not an IPv6 address keeps its brackets, as in the constructor
          let h := if mem 91 (rpartition 64 a.authority).2.2 && !mem 91 h1 then [91] ++ h1 ++ [93] else h1
          let port := match np.port with
            | some p => if some p = defaultPort a.scheme then none else some p
            | none => none
          if np.user.isNone && np.password.isNone then
            pure (match port with | none => h | some p => h ++ [58] ++ natToStr p)
          else pure (makeNetloc (q e Gen.QUOTER) np.user np.password (some h) port true)
        else if !a.host.isEmpty then do
          let h ← encodeHost e.o a.host true
          let port := match port with
            | some p => if some p = defaultPort a.scheme then none else some p
            | none => none
          if a.user.isNone && a.password.isNone then
            pure (match port with | none => h | some p => h ++ [58] ++ natToStr p)
          else pure (makeNetloc (q e Gen.QUOTER) a.user a.password (some h) port true)
        else pure [] : R Str)
      let path0 := if a.path.isEmpty then a.path else q e Gen.PATH_QUOTER a.path
      let path ← (if !path0.isEmpty && !netloc.isEmpty then
          match path0 with
          | 47 :: _ => pure (if mem 46 path0 then normalizePath path0 else path0)
          | _ => .error .valueError
        else pure path0 : R Str)
      let query := if !qargTruthy a.query && !queryString.isEmpty then q e Gen.QUERY_QUOTER queryString else queryString
      let fragment := if a.fragment.isEmpty then a.fragment else q e Gen.FRAGMENT_QUOTER a.fragment
      pure (fromParts a.scheme netloc path query fragment)

/-! ### modifiers -/


def withScheme (e : Env) (u : Url) (scheme : Str) : R Url := do
  let lowered ← lowerAny e scheme
  if u.netloc.isEmpty && Gen.schemeRequiresHost.contains lowered then .error .valueError
  else pure (fromParts lowered u.netloc u.path u.query u.fragment)

def withUser (e : Env) (u : Url) (usr : Option Str) : R Url := do
  let (usr', pw) ← (match usr with
    | none => pure (none, none)
    | some s => do pure (some (q e Gen.QUOTER s), ← rawPassword e u) : R (Option Str × Option Str))
  if u.netloc.isEmpty then .error .valueError
  else do
    let h := (← hostSubcomponent e u).getD []
    let netloc := makeNetloc (q e Gen.QUOTER) usr' pw (some h) (← explicitPort e u) false
    pure (fromParts u.scheme netloc u.path u.query u.fragment)

def withPassword (e : Env) (u : Url) (pw : Option Str) : R Url := do
  let pw' := pw.map (q e Gen.QUOTER)
  if u.netloc.isEmpty then .error .valueError
  else do
    let h := (← hostSubcomponent e u).getD []
    let port ← explicitPort e u
    let netloc := makeNetloc (q e Gen.QUOTER) (← rawUser e u) pw' (some h) port false
    pure (fromParts u.scheme netloc u.path u.query u.fragment)

def withHost (e : Env) (u : Url) (h : Str) : R Url := do
  if u.netloc.isEmpty then .error .valueError
  else if h.isEmpty then .error .valueError
  else do
    let eh ← encodeHost e.o h true
    let port ← explicitPort e u
    let netloc := makeNetloc (q e Gen.QUOTER) (← rawUser e u) (← rawPassword e u) (some eh) port false
    pure (fromParts u.scheme netloc u.path u.query u.fragment)

/-- `with_port(port)`; `kind`: 0 = int or None, 1 = bool, 2 = other type -/
def withPort (e : Env) (u : Url) (port : Option Int) (kind : Nat) : R Url := do
  if kind ≠ 0 then .error .typeError
  else if (match port with | some p => !(0 ≤ p ∧ p ≤ 65535) | none => false) then .error .valueError
  else if u.netloc.isEmpty then .error .valueError
  else do
    let h := (← hostSubcomponent e u).getD []
    let netloc := makeNetloc (q e Gen.QUOTER) (← rawUser e u) (← rawPassword e u) (some h) (port.map Int.toNat) false
    pure (fromParts u.scheme netloc u.path u.query u.fragment)

def withPath (e : Env) (u : Url) (path : Str) (encoded keepQuery keepFragment : Bool) : Url :=
  let p1 :=
    if !encoded then
      let p := q e Gen.PATH_QUOTER path
      -- `if netloc and "." in path: path = normalize_path(path if path[0] == "/" else "/" + path)` (rooted first: fix 7cae68c)
      if !u.netloc.isEmpty && mem 46 p then
        normalizePath (match p with
          | 47 :: _ => p
          | _ => 47 :: p)
      else p
    else path
  let p2 := match p1 with
    | [] => p1
    | 47 :: _ => p1
    | _ => 47 :: p1
  fromParts u.scheme u.netloc p2 (if keepQuery then u.query else []) (if keepFragment then u.fragment else [])

def withQuery (e : Env) (u : Url) (a : QArg) : R Url := do
  let qs := (← getStrQuery e.b a).getD []
  pure (fromParts u.scheme u.netloc u.path qs u.fragment)

def extendQuery (e : Env) (u : Url) (a : QArg) : R Url := do
  match ← getStrQuery e.b a with
  | none => pure u
  | some nq =>
    if nq.isEmpty then pure u
    else
      let query :=
        if !u.query.isEmpty then
          (if u.query.getLast? = some 38 then u.query ++ nq else u.query ++ [38] ++ nq)
        else nq
      pure (fromParts u.scheme u.netloc u.path query u.fragment)

def strItems (l : List (Str × Str)) : List (Str × QItem) := l.map (fun (k, v) => (k, QItem.one (.str v)))

def updateQuery (e : Env) (u : Url) (a : QArg) : R Url := do
  let query ← (match a with
    | .none => pure []
    | .str s =>
      if s.isEmpty then pure u.query
      else strQueryFromIterable e.b (mdUpdate (strItems (queryPairs u)) (strItems (parseQsl s)))
    | .mapping items =>
      if items.isEmpty then pure u.query
      else strQueryFromSeqIterable e.b (mdUpdate (strItems (queryPairs u)) items)
    | .pairs items =>
      if items.isEmpty then pure u.query
      else strQueryFromIterable e.b (mdUpdate (strItems (queryPairs u)) items)
    | .bytes empty => if empty then pure u.query else .error .typeError
    | .other => .error .typeError
    | .noArgs => .error .valueError : R Str)
  pure (fromParts u.scheme u.netloc u.path query u.fragment)

def withoutQueryParams (e : Env) (u : Url) (names : List Str) : R Url := do
  let ps := queryPairs u
  let toRemove := names.filter (fun n => ps.any (·.1 = n))
  if toRemove.isEmpty then pure u
  else withQuery e u (.pairs (strItems (ps.filter (fun p => !toRemove.contains p.1))))

def withFragment (e : Env) (u : Url) (f : Option Str) : Url :=
  let raw := match f with
    | none => []
    | some s => q e Gen.FRAGMENT_QUOTER s
  if u.fragment = raw then u else fromParts u.scheme u.netloc u.path u.query raw

/-- `_with_raw_name` -/
def withRawName (u : Url) (nm : Str) (keepQuery keepFragment : Bool) : R Url := do
  let parts := rawParts u
  let parts' ←
    (if !u.netloc.isEmpty then
      let ps := if parts.length = 1 then parts ++ [nm] else parts.dropLast ++ [nm]
      pure ([] :: ps.drop 1)
    else
      match parts with
      | [] => .error .indexError
      | _ =>
        let ps := parts.dropLast ++ [nm]
        pure (match ps with
          | [47] :: r => [] :: r
          | ps => ps) : R (List Str))
  pure (fromParts u.scheme u.netloc (joinC 47 parts')
          (if keepQuery then u.query else []) (if keepFragment then u.fragment else []))

def withName (e : Env) (u : Url) (nm : Str) (keepQuery keepFragment : Bool) : R Url := do
  if mem 47 nm then .error .valueError
  else
    let n := q e Gen.PATH_QUOTER nm
    if n = dot ∨ n = dotdot then .error .valueError
    else withRawName u n keepQuery keepFragment

def withSuffix (e : Env) (u : Url) (sfx : Str) (keepQuery keepFragment : Bool) : R Url := do
  if (!sfx.isEmpty && sfx.head? ≠ some 46) || sfx = [46] then .error .valueError
  else do
    let n ← rawName u
    if n.isEmpty then .error .valueError
    else if mem 47 sfx then .error .valueError
    else do
      let old ← rawSuffix u
      let s := q e Gen.PATH_QUOTER sfx
      let n' := if old.isEmpty then n ++ s else n.take (n.length - old.length) ++ s
      if n' = dot ∨ n' = dotdot then .error .valueError
      else withRawName u n' keepQuery keepFragment

/-- `_make_child(paths, encoded)` -/
def makeChild (e : Env) (u : Url) (paths : List Str) (encoded : Bool) : R Url := do
  -- walk `reversed(paths)`
  let rec go : List Str → Bool → List Str → Bool → R (List Str × Bool)
    | [], _, parsed, nn => pure (parsed, nn)
    | p :: rest, last, parsed, nn =>
      if p.head? = some 47 then .error .valueError
      else
        let p' := if encoded then p else q e Gen.PATH_QUOTER p
        let nn' := nn || mem 46 p'
        let segs := (splitOn 47 p').reverse
        let add := if !last && segs.head? = some [] then segs.drop 1 else segs
        go rest false (parsed ++ add) nn'
  let (parsed0, needsNormalize) ← go paths.reverse true [] false
  let parsed1 :=
    if !u.path.isEmpty then
      let old := splitOn 47 u.path
      let old' := if old.getLast? = some [] then old.dropLast else old
      parsed0 ++ old'.reverse
    else parsed0
  let parsed2 :=
    if !u.netloc.isEmpty && !parsed1.isEmpty && parsed1.getLast? ≠ some [] then parsed1 ++ [[]] else parsed1
  let parsed := parsed2.reverse
  if u.netloc.isEmpty || !needsNormalize then
    pure (fromParts u.scheme u.netloc (joinC 47 parsed) [] [])
  else
    let path := joinC 47 (normalizePathSegments parsed)
    let path := match path with
      | [] => path
      | 47 :: _ => path
      | _ => 47 :: path
    pure (fromParts u.scheme u.netloc path [] [])

/-- `join(url)` -/
def join (e : Env) (base ref : Url) : Url :=
  let _ := e
  let scheme := if !ref.scheme.isEmpty then ref.scheme else base.scheme
  if scheme ≠ base.scheme || !Gen.usesRelative.contains scheme then ref
  else if !ref.netloc.isEmpty && Gen.usesAuthority.contains scheme then
    fromParts scheme ref.netloc ref.path ref.query ref.fragment
  else
    let path :=
      if !ref.path.isEmpty then
        let p :=
          if ref.path.head? = some 47 then ref.path
          else if base.path.isEmpty then (if !base.netloc.isEmpty then 47 :: ref.path else ref.path)
          else if base.path.getLast? = some 47 then base.path ++ ref.path
          else
            let merged := joinC 47 ((rawParts base).dropLast ++ [[]]) ++ ref.path
            if base.path.head? = some 47 then merged.drop 1 else merged
        if mem 46 p then normalizePath p else p
      else base.path
    fromParts scheme base.netloc path
      (if !ref.path.isEmpty || !ref.query.isEmpty then ref.query else base.query)
      ref.fragment

/-! ### human_repr -/

def isPrintableChar (o : Oracles) (c : Nat) : R Bool :=
  if c < 128 then pure (32 ≤ c && c < 127) else ask "isPrintableU" [c] (o.isPrintableU c)

def humanUnsafeOf (key : String) : Str := ((Gen.humanUnsafe.find? (·.1 == key)).map (·.2)).getD []

/-- `human_quote(s, unsafe)` for a non-None `s` -/
def humanQuote (o : Oracles) (s : Str) (unsafeS : Str) : R Str := do
  let parts ← s.mapM (fun c => do
    if c = 37 || mem c unsafeS then pure (pct c)
    else if ← isPrintableChar o c then pure [c]
    else if isSurrogate c then .error .valueError      -- urllib.parse.quote → UnicodeEncodeError
    else pure ((utf8 c).flatMap pct))
  pure parts.flatten

def humanQuoteOpt (o : Oracles) (s : Option Str) (unsafeS : Str) : R (Option Str) :=
  match s with
  | none => pure none
  | some s => do pure (some (← humanQuote o s unsafeS))

def humanRepr (e : Env) (u : Url) : R Str := do
  let usr ← humanQuoteOpt e.o (← user e u) (humanUnsafeOf "user")
  let pw ← humanQuoteOpt e.o (← password e u) (humanUnsafeOf "password")
  let h0 ← host e u
  let h := h0.map (fun h => if !h.isEmpty && mem 58 h then [91] ++ h ++ [93] else h)
  let path ← humanQuote e.o (pathDecoded e u) (humanUnsafeOf "path")
  let qparts ← (queryPairs u).mapM (fun (k, v) => do
    pure ((← humanQuote e.o k (humanUnsafeOf "k")) ++ [61] ++ (← humanQuote e.o v (humanUnsafeOf "v"))))
  let qs := joinC 38 qparts
  let frag ← humanQuote e.o (fragmentDecoded e u) (humanUnsafeOf "fragment")
  let netloc := makeNetloc (q e Gen.QUOTER) usr pw h (← explicitPort e u) false
  pure (unsplitResult u.scheme netloc path qs frag)

end Yarl
