/-
  Writer.lean — the C `Writer` of `_quoting_c.pyx`: a module-level static buffer
  of `BUF_SIZE` bytes, grown by `BUF_SIZE` at a time on the heap (first growth:
  malloc + memcpy out of the static buffer; later growths: realloc), released
  once at the end unless it is still the static buffer.

  Allocation outcomes are an oracle: `faults i = true` means the i-th allocation
  request (0-based, counted over malloc and realloc together) fails.
-/
import YarlModel.Str
namespace Yarl.Writer

inductive Buf where
  | static                -- `writer.buf == BUFFER`
  | heap (id : Nat)       -- a live heap block
  deriving Repr, DecidableEq

structure St where
  buf : Buf := .static
  size : Nat              -- capacity
  data : List Nat := []   -- bytes written so far (`pos = data.length`)
  allocs : Nat := 0       -- allocation requests made so far
  live : List Nat := []   -- heap blocks currently allocated
  freed : List Nat := []  -- heap blocks freed (in order)
  staticFreed : Bool := false
  deriving Repr

def init (bufSize : Nat) : St := { size := bufSize }

/-- `_write_char`: `none` = returned -1 (MemoryError set) -/
def writeChar (bufSize : Nat) (faults : Nat → Bool) (w : St) (ch : Nat) : Option St :=
  if w.data.length = w.size then
    let k := w.allocs
    if faults k then none
    else
      match w.buf with
      | .static =>
        -- PyMem_Malloc(size + BUF_SIZE); memcpy
        some { w with buf := .heap k, size := w.size + bufSize, allocs := k + 1, live := k :: w.live,
                      data := w.data ++ [ch] }
      | .heap old =>
        -- PyMem_Realloc: the old block is consumed, a new one is live
        some { w with buf := .heap k, size := w.size + bufSize, allocs := k + 1,
                      live := k :: w.live.filter (· ≠ old), data := w.data ++ [ch] }
  else some { w with data := w.data ++ [ch] }

/-- `_release_writer` -/
def release (w : St) : St :=
  match w.buf with
  | .static => w
  | .heap id => { w with live := w.live.filter (· ≠ id), freed := w.freed ++ [id] }

/-- write all characters; stop at the first failure (the exception propagates
    through `try/finally`, which releases the writer) -/
def writeAll (bufSize : Nat) (faults : Nat → Bool) : St → List Nat → St × Bool
  | w, [] => (w, true)
  | w, c :: cs =>
    match writeChar bufSize faults w c with
    | some w' => writeAll bufSize faults w' cs
    | none => (w, false)

/-- one quoting call at the writer level: init, write everything, decode the
    buffer if all writes succeeded, release in `finally` -/
def run (bufSize : Nat) (faults : Nat → Bool) (cs : List Nat) : Except PyErr (List Nat) × St :=
  let (w, ok) := writeAll bufSize faults (init bufSize) cs
  let w' := release w
  (if ok then .ok w.data else .error .memoryError, w')

end Yarl.Writer
