/-
  Query.lean — `yarl/_query.py`, stdlib `parse_qsl`/`unquote` (3.12) and
  `multidict.MultiDict.update` (6.2) as far as yarl uses them.
-/
import YarlModel.Parse
namespace Yarl

/-- a value in a query argument, by the Python type `query_var` dispatches on -/
inductive QVal where
  | str (s : Str)
  | int (n : Int)                       -- `int` (or SupportsInt class) → `str(int(v))`
  | float (txt : Str) (kind : Nat)      -- `str(float(v))` as rendered by Python; kind 0 finite, 1 inf, 2 nan
  | bool
  | none
  | other                               -- bytes, objects, …
  deriving Repr, DecidableEq

/-- a value slot of a mapping: a single value or a list/tuple of them -/
inductive QItem where
  | one (v : QVal)
  | many (vs : List QVal)
  deriving Repr, DecidableEq

/-- the `query` argument -/
inductive QArg where
  | none
  | str (s : Str)
  | mapping (items : List (Str × QItem))     -- dict, MultiDict, kwargs
  | pairs (items : List (Str × QItem))       -- list/tuple of (key, value)
  | bytes (empty : Bool)
  | other
  | noArgs                                   -- called with neither a positional argument nor kwargs
  deriving Repr, DecidableEq

def intToStr (n : Int) : Str :=
  if n < 0 then 45 :: natToStr n.natAbs else natToStr n.toNat

/-- `query_var(v)` -/
def queryVar : QVal → R Str
  | .str s => .ok s
  | .int n => .ok (intToStr n)
  | .float txt kind => if kind = 0 then .ok txt else .error .valueError
  | .bool => .error .typeError
  | .none => .error .typeError
  | .other => .error .typeError

/-- `f"{quoter(k)}={quoter(v if type(v) is str else query_var(v))}"` -/
def pairStr (b : Backend) (k : Str) (v : QVal) : R Str := do
  let vs ← queryVar v
  pure (Gen.QUERY_PART_QUOTER.run b k ++ [61] ++ Gen.QUERY_PART_QUOTER.run b vs)

/-- `get_str_query_from_sequence_iterable` (list/tuple values expand) -/
def strQueryFromSeqIterable (b : Backend) (items : List (Str × QItem)) : R Str := do
  let ps ← items.mapM (fun (k, it) =>
    match it with
    | .one v => do pure [← pairStr b k v]
    | .many vs => vs.mapM (pairStr b k))
  pure (joinC 38 ps.flatten)

/-- `get_str_query_from_iterable` (a list value is an invalid variable type) -/
def strQueryFromIterable (b : Backend) (items : List (Str × QItem)) : R Str := do
  let ps ← items.mapM (fun (k, it) =>
    match it with
    | .one v => pairStr b k v
    | .many _ => .error .typeError)
  pure (joinC 38 ps)

/-- `get_str_query(query)`: `none` = Python `None` -/
def getStrQuery (b : Backend) : QArg → R (Option Str)
  | .none => .ok none
  | .str s => if s.isEmpty then .ok (some []) else .ok (some (Gen.QUERY_QUOTER.run b s))
  | .mapping items => if items.isEmpty then .ok (some []) else (strQueryFromSeqIterable b items).map some
  | .pairs items => if items.isEmpty then .ok (some []) else (strQueryFromIterable b items).map some
  | .bytes empty => if empty then .ok (some []) else .error .typeError
  | .other => .error .typeError
  | .noArgs => .error .valueError

/-! ### stdlib `unquote` / `parse_qsl` -/

/-- `_unquote_impl` on an ASCII run: `%XY` (either case) is a byte, anything else itself -/
def unquoteToBytes : Str → List Nat
  | [] => []
  | c :: rest =>
    if c = 37 then
      match h : takeEscape restoreCh rest with
      | some (v, _, _, rest') => v :: unquoteToBytes rest'
      | none => 37 :: unquoteToBytes rest
    else c :: unquoteToBytes rest
termination_by l => l.length
decreasing_by
  all_goals simp_wf
  all_goals (try have := takeEscape_length h)
  all_goals omega

/-- `urllib.parse.unquote(s)` with the default `errors="replace"`: every maximal
    ASCII run is percent-decoded to bytes and decoded as UTF-8 with replacement;
    non-ASCII characters are kept. -/
def stdUnquoteAux : Nat → Str → Str
  | 0, _ => []
  | _, [] => []
  | fuel + 1, s@(c :: rest) =>
    if c < 128 then
      let run := s.takeWhile (· < 128)
      let tail := s.dropWhile (· < 128)
      decodeReplace (unquoteToBytes run) ++ stdUnquoteAux fuel tail
    else c :: stdUnquoteAux fuel rest

def stdUnquote (s : Str) : Str :=
  if !mem 37 s then s else stdUnquoteAux (s.length + 1) s

/-- `s.split("=", 1)` -/
def splitFirstEq (s : Str) : Str × Option Str :=
  let (a, f, b) := partition 61 s
  (a, if f then some b else none)

def plusToSpace (s : Str) : Str := s.map (fun c => if c = 43 then 32 else c)

/-- `parse_qsl(qs, keep_blank_values=True)` -/
def parseQsl (qs : Str) : List (Str × Str) :=
  if qs.isEmpty then [] else
  (splitOn 38 qs).filterMap (fun nv =>
    if nv.isEmpty then none
    else
      let (n, v) := splitFirstEq nv
      some (stdUnquote (plusToSpace n), stdUnquote (plusToSpace (v.getD []))))

/-! ### `MultiDict.update` (case-sensitive keys) -/

/-- replace the first occurrence of `k` at index ≥ `start`; returns the new list
    and the index after the replaced entry, or `none` when there is no such entry -/
def replaceFrom {V} (k : Str) (v : V) : List (Str × V) → Nat → Nat → Option (List (Str × V) × Nat)
  | [], _, _ => none
  | (k', v') :: rest, idx, start =>
    if idx ≥ start ∧ k' = k then some ((k, v) :: rest, idx + 1)
    else match replaceFrom k v rest (idx + 1) start with
      | some (l, p) => some ((k', v') :: l, p)
      | none => none

def usedGet (used : List (Str × Nat)) (k : Str) : Option Nat := (used.find? (·.1 = k)).map (·.2)
def usedSet (used : List (Str × Nat)) (k : Str) (p : Nat) : List (Str × Nat) :=
  (k, p) :: used.filter (·.1 ≠ k)

/-- first loop of `_update_items` -/
def mdUpdateLoop {V} : List (Str × V) → List (Str × Nat) → List (Str × V) → List (Str × V) × List (Str × Nat)
  | items, used, [] => (items, used)
  | items, used, (k, v) :: rest =>
    let start := (usedGet used k).getD 0
    match replaceFrom k v items 0 start with
    | some (items', p) => mdUpdateLoop items' (usedSet used k p) rest
    | none =>
      let items' := items ++ [(k, v)]
      mdUpdateLoop items' (usedSet used k items'.length) rest

/-- second loop ("drop tails"): entries of an updated key at or after its last used position are deleted.
    `i` is the index in the *current* list, which does not advance on deletion. -/
def mdDropTails {V} (used : List (Str × Nat)) : List (Str × V) → Nat → List (Str × V)
  | [], _ => []
  | (k, v) :: rest, i =>
    match usedGet used k with
    | none => (k, v) :: mdDropTails used rest (i + 1)
    | some pos => if i ≥ pos then mdDropTails used rest i else (k, v) :: mdDropTails used rest (i + 1)

/-- `MultiDict(old).update(new)` then `.items()` -/
def mdUpdate {V} (old new : List (Str × V)) : List (Str × V) :=
  if new.isEmpty then old else
  let (items, used) := mdUpdateLoop old [] new
  mdDropTails used items 0

end Yarl
