/-
  Tables.lean — how each backend turns the keyword arguments of a `_Quoter` /
  `_Unquoter` instance (generated) into its lookup tables.

  * pure Python: `safe = self._safe + ALLOWED + ("+&=;" if not qs) + self._protected`
    and membership tests on that string / on `self._protected`.
  * compiled: a 128-bit table initialised from `ALLOWED` (+ `QS` when not qs),
    then `safe` and `protected` added; a second table for `protected`.
-/
import YarlModel.Generated
import YarlModel.Unquote
namespace Yarl

def QArgs.tabPy (a : QArgs) : QTab where
  safe := fun c => mem c (a.safe ++ Gen.allowedPy ++ (if a.qs then [] else "+&=;".toStr) ++ a.prot)
  prot := fun c => mem c a.prot
  qs := a.qs
  requote := a.requote

def QArgs.tabC (a : QArgs) : QTab where
  safe := fun c => decide (c < 128) &&
    (mem c Gen.allowedC || (!a.qs && mem c Gen.qsC) || mem c a.safe || mem c a.prot)
  prot := fun c => decide (c < 128) && mem c a.prot
  qs := a.qs
  requote := a.requote

def QArgs.tab (a : QArgs) : Backend → QTab
  | .py => a.tabPy
  | .c => a.tabC

/-- `_Quoter(**a)(s)` on backend `b` -/
def QArgs.run (a : QArgs) (b : Backend) (s : Str) : Str := quote b (a.tab b) s

/-- `_Quoter()` and `_Quoter(qs=True)` as created inside every `_Unquoter` -/
def defaultQuoterArgs : QArgs := { name := "_Quoter()", safe := [], prot := [], qs := false, requote := true }
def defaultQsQuoterArgs : QArgs := { name := "_Quoter(qs=True)", safe := [], prot := [], qs := true, requote := true }

def UArgs.tab (a : UArgs) (b : Backend) : UTab where
  ignoreS := a.ignoreS
  unsafeS := a.unsafeS
  qs := a.qs
  quoter := defaultQuoterArgs.tab b
  qsQuoter := defaultQsQuoterArgs.tab b

/-- `_Unquoter(**a)(s)` on backend `b` -/
def UArgs.run (a : UArgs) (b : Backend) (s : Str) : Str := unquote b (a.tab b) s

def findQuoter (name : String) : Option QArgs := Gen.allQuoters.find? (·.name == name)
def findUnquoter (name : String) : Option UArgs := Gen.allUnquoters.find? (·.name == name)

end Yarl
