/-
  Utf8.lean — UTF-8 encoding of a code point as both backends produce it, and
  CPython 3.12's *stateful* strict decoder as both unquoters drive it (one new
  byte at a time on top of a pending valid prefix).
-/
import YarlModel.Str
namespace Yarl

/-- UTF-8 bytes of one code point.  Lone surrogates and values above 0x10FFFF
    produce nothing (`errors="ignore"` in Python; "ignored" in `_write_utf8`). -/
def utf8 (c : Nat) : List Nat :=
  if c < 0x80 then [c]
  else if c < 0x800 then [0xC0 + c / 64, 0x80 + c % 64]
  else if isSurrogate c then []
  else if c < 0x10000 then [0xE0 + c / 4096, 0x80 + (c / 64) % 64, 0x80 + c % 64]
  else if c ≤ 0x10FFFF then
    [0xF0 + c / 262144, 0x80 + (c / 4096) % 64, 0x80 + (c / 64) % 64, 0x80 + c % 64]
  else []

/-- `s.encode("utf8", errors="ignore")`. -/
def utf8s (s : Str) : List Nat := s.flatMap utf8

def isCont (b : Nat) : Bool := 0x80 ≤ b && b < 0xC0

inductive DecRes where
  | incomplete          -- consumed nothing yet, byte kept pending
  | char (c : Nat)      -- the whole buffer decoded to one code point
  | invalid             -- UnicodeDecodeError
  deriving Repr, DecidableEq

/-- Result of feeding the decoder a buffer (pending valid prefix ++ one new byte).
    CPython rejects at the earliest byte Unicode Table 3-7 allows, except that
    `ED A0..BF` stays pending until the third byte (checked against 3.12.1). -/
def decodeBuf : List Nat → DecRes
  | [b0] =>
    if b0 < 0x80 then .char b0
    else if b0 < 0xC2 then .invalid
    else if b0 < 0xF5 then .incomplete
    else .invalid
  | [b0, b1] =>
    if b0 < 0xC2 then .invalid
    else if b0 < 0xE0 then
      if isCont b1 then .char ((b0 - 0xC0) * 64 + (b1 - 0x80)) else .invalid
    else if b0 < 0xF0 then
      if !isCont b1 then .invalid
      else if b0 = 0xE0 && b1 < 0xA0 then .invalid
      else .incomplete
    else if b0 < 0xF5 then
      if !isCont b1 then .invalid
      else if b0 = 0xF0 && b1 < 0x90 then .invalid
      else if b0 = 0xF4 && 0x90 ≤ b1 then .invalid
      else .incomplete
    else .invalid
  | [b0, b1, b2] =>
    if b0 < 0xE0 then .invalid
    else if b0 < 0xF0 then
      if !isCont b1 || !isCont b2 then .invalid
      else if b0 = 0xE0 && b1 < 0xA0 then .invalid
      else if b0 = 0xED && 0xA0 ≤ b1 then .invalid
      else .char ((b0 - 0xE0) * 4096 + (b1 - 0x80) * 64 + (b2 - 0x80))
    else if b0 < 0xF5 then
      if !isCont b1 || !isCont b2 then .invalid
      else if b0 = 0xF0 && b1 < 0x90 then .invalid
      else if b0 = 0xF4 && 0x90 ≤ b1 then .invalid
      else .incomplete
    else .invalid
  | [b0, b1, b2, b3] =>
    if b0 < 0xF0 || 0xF5 ≤ b0 then .invalid
    else if !isCont b1 || !isCont b2 || !isCont b3 then .invalid
    else if b0 = 0xF0 && b1 < 0x90 then .invalid
    else if b0 = 0xF4 && 0x90 ≤ b1 then .invalid
    else .char ((b0 - 0xF0) * 262144 + (b1 - 0x80) * 4096 + (b2 - 0x80) * 64 + (b3 - 0x80))
  | _ => .invalid

/-- `bytes.decode("utf-8", errors="replace")` as used by stdlib `parse_qsl`:
    every maximal ill-formed subpart becomes one U+FFFD.  Here `ED A0..BF` is
    rejected at the second byte (the non-stateful path). -/
def decodeReplaceAux : Nat → List Nat → List Nat
  | 0, _ => []
  | _, [] => []
  | fuel + 1, b0 :: rest =>
    if b0 < 0x80 then b0 :: decodeReplaceAux fuel rest
    else if b0 < 0xC2 then 0xFFFD :: decodeReplaceAux fuel rest
    else if b0 < 0xE0 then
      match rest with
      | b1 :: r1 => if isCont b1 then ((b0 - 0xC0) * 64 + (b1 - 0x80)) :: decodeReplaceAux fuel r1
                    else 0xFFFD :: decodeReplaceAux fuel rest
      | [] => [0xFFFD]
    else if b0 < 0xF0 then
      match rest with
      | b1 :: r1 =>
        if !isCont b1 || (b0 = 0xE0 && b1 < 0xA0) || (b0 = 0xED && 0xA0 ≤ b1) then
          0xFFFD :: decodeReplaceAux fuel rest
        else match r1 with
          | b2 :: r2 => if isCont b2 then
                          ((b0 - 0xE0) * 4096 + (b1 - 0x80) * 64 + (b2 - 0x80)) :: decodeReplaceAux fuel r2
                        else 0xFFFD :: decodeReplaceAux fuel r1
          | [] => [0xFFFD]
      | [] => [0xFFFD]
    else if b0 < 0xF5 then
      match rest with
      | b1 :: r1 =>
        if !isCont b1 || (b0 = 0xF0 && b1 < 0x90) || (b0 = 0xF4 && 0x90 ≤ b1) then
          0xFFFD :: decodeReplaceAux fuel rest
        else match r1 with
          | b2 :: r2 =>
            if !isCont b2 then 0xFFFD :: decodeReplaceAux fuel r1
            else match r2 with
              | b3 :: r3 => if isCont b3 then
                  ((b0 - 0xF0) * 262144 + (b1 - 0x80) * 4096 + (b2 - 0x80) * 64 + (b3 - 0x80))
                    :: decodeReplaceAux fuel r3
                else 0xFFFD :: decodeReplaceAux fuel r2
              | [] => [0xFFFD]
          | [] => [0xFFFD]
      | [] => [0xFFFD]
    else 0xFFFD :: decodeReplaceAux fuel rest

def decodeReplace (bs : List Nat) : List Nat := decodeReplaceAux (bs.length + 1) bs

end Yarl
