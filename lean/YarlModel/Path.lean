/-
  Path.lean — `yarl/_path.py`: dot-segment removal with a stack.
-/
import YarlModel.Str
namespace Yarl

def dot : Str := [46]
def dotdot : Str := [46, 46]

/-- the `for seg in segments` loop of `normalize_path_segments`; `acc` is
    `resolved_path` in reverse (top of the stack first) -/
def normLoop : List Str → List Str → List Str
  | acc, [] => acc.reverse
  | acc, seg :: rest =>
    if seg = dotdot then normLoop acc.tail rest       -- pop, ignoring an empty stack
    else if seg = dot then normLoop acc rest
    else normLoop (seg :: acc) rest

/-- `normalize_path_segments(segments)` -/
def normalizePathSegments (segments : List Str) : List Str :=
  let resolved := normLoop [] segments
  match segments.getLast? with
  | some l => if l = dot ∨ l = dotdot then resolved ++ [[]] else resolved
  | none => resolved

/-- `normalize_path(path)` -/
def normalizePath (path : Str) : Str :=
  match path with
  | 47 :: rest => 47 :: joinC 47 (normalizePathSegments (splitOn 47 rest))
  | _ => joinC 47 (normalizePathSegments (splitOn 47 path))

end Yarl
