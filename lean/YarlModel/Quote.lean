/-
  Quote.lean — the two percent-quoters, modelled as the two algorithms they are.

  * `quotePy`  — `_quoting_py._Quoter.__call__`: encode to UTF-8 (lone surrogates
    dropped), then a byte loop with a 3-byte `pct` window.  The window's rewinds
    (`idx -= 2`, `idx -= 1`) re-process the bytes after a `%` that started no
    escape; here that is "look two bytes ahead, and if they are not an escape,
    emit %25 and continue right after the `%`".
  * `quoteC`   — `_quoting_c._Quoter`: drop lone surrogates, fast-skip test, then a
    code-point loop with look-ahead 2 and a `changed` flag; when nothing changed
    the *input* is returned.

  The tables come in as a `QTab`; the generated configurations instantiate it.
-/
import YarlModel.Utf8
set_option linter.unusedVariables false
namespace Yarl

structure QTab where
  /-- literal-safe characters (already includes ALLOWED, `+&=;` when not qs, and the protected set) -/
  safe : Nat → Bool
  prot : Nat → Bool
  qs : Bool
  requote : Bool

/-- `_to_hex` -/
def toHex (v : Nat) : Nat := if v < 10 then v + 0x30 else v + 0x41 - 10

/-- `_from_hex` (−1 is `none`) -/
def fromHex (c : Nat) : Option Nat :=
  if 0x30 ≤ c ∧ c ≤ 0x39 then some (c - 0x30)
  else if 0x41 ≤ c ∧ c ≤ 0x46 then some (c - 0x41 + 10)
  else if 0x61 ≤ c ∧ c ≤ 0x66 then some (c - 0x61 + 10)
  else none

def isLowerHex (c : Nat) : Bool := 0x61 ≤ c && c ≤ 0x66

/-- `_restore_ch` -/
def restoreCh (d1 d2 : Nat) : Option Nat :=
  match fromHex d1, fromHex d2 with
  | some a, some b => some (a * 16 + b)
  | _, _ => none

/-- The pure-Python test: upper-case any ASCII lower-case letter, require
    `[A-Z0-9][A-Z0-9]`, then `int(…, 16)` (which fails for G–Z). -/
def upperAZ (c : Nat) : Nat := if 97 ≤ c ∧ c ≤ 122 then c - 32 else c
def isAZ09 (c : Nat) : Bool := (65 ≤ c && c ≤ 90) || (48 ≤ c && c ≤ 57)
def hexValUpper (c : Nat) : Option Nat :=
  if 48 ≤ c ∧ c ≤ 57 then some (c - 48) else if 65 ≤ c ∧ c ≤ 70 then some (c - 55) else none
def restorePy (b1 b2 : Nat) : Option Nat :=
  let u1 := upperAZ b1
  let u2 := upperAZ b2
  if isAZ09 u1 && isAZ09 u2 then
    match hexValUpper u1, hexValUpper u2 with
    | some a, some b => some (a * 16 + b)
    | _, _ => none
  else none

/-- `%XY` with upper-case hex (`_write_pct`, `f"%{ch:02X}"`). -/
def pct (b : Nat) : Str := [37, toHex (b / 16), toHex (b % 16)]

/-- If the list starts with two characters forming an escape body, return its
    value, the two digits as written and the remainder. -/
def takeEscape (f : Nat → Nat → Option Nat) : List Nat → Option (Nat × Nat × Nat × List Nat)
  | d1 :: d2 :: r =>
    match f d1 d2 with
    | some v => some (v, d1, d2, r)
    | none => none
  | _ => none

theorem takeEscape_length {f l v d1 d2 r} (h : takeEscape f l = some (v, d1, d2, r)) :
    r.length + 2 = l.length := by
  match l, h with
  | a :: b :: r', h =>
    simp only [takeEscape] at h
    split at h
    · simp only [Option.some.injEq, Prod.mk.injEq] at h
      obtain ⟨_, _, _, rfl⟩ := h
      simp
    · simp at h

theorem takeEscape_eq {f l v d1 d2 r} (h : takeEscape f l = some (v, d1, d2, r)) :
    l = d1 :: d2 :: r ∧ f d1 d2 = some v := by
  match l, h with
  | a :: b :: r', h =>
    simp only [takeEscape] at h
    split at h
    · rename_i v' hv
      simp only [Option.some.injEq, Prod.mk.injEq] at h
      obtain ⟨rfl, rfl, rfl, rfl⟩ := h
      exact ⟨rfl, hv⟩
    · simp at h

/-! ### pure-Python backend -/

/-- what is emitted for a decoded escape value `v` (0–255) -/
def emitEsc (t : QTab) (v : Nat) : Str :=
  if t.prot v then pct v
  else if t.safe v then [v]
  else pct v

def pyLoop (t : QTab) : List Nat → Str
  | [] => []
  | b :: rest =>
    if b = 37 ∧ t.requote = true then
      match h : takeEscape restorePy rest with
      | some (v, _, _, rest') => emitEsc t v ++ pyLoop t rest'
      | none => pct 37 ++ pyLoop t rest
    else if t.qs = true ∧ b = 32 then 43 :: pyLoop t rest
    else if t.safe b then b :: pyLoop t rest
    else pct b ++ pyLoop t rest
termination_by l => l.length
decreasing_by
  all_goals simp_wf
  all_goals (try have := takeEscape_length h)
  all_goals omega

def quotePy (t : QTab) (s : Str) : Str := pyLoop t (utf8s s)

/-! ### compiled backend -/

def stripSurr (s : Str) : Str := s.filter (fun c => !isSurrogate c)

/-- `_write_utf8`: every UTF-8 byte as an escape -/
def writeUtf8 (c : Nat) : Str := (utf8 c).flatMap pct

/-- `_Quoter._write`: output and the `changed` contribution -/
def cWriteOut (t : QTab) (c : Nat) : Str :=
  if t.qs = true ∧ c = 32 then [43]
  else if c < 128 ∧ t.safe c = true then [c]
  else writeUtf8 c

def cWriteChanged (t : QTab) (c : Nat) : Bool :=
  if t.qs = true ∧ c = 32 then true
  else if c < 128 ∧ t.safe c = true then false
  else !(utf8 c).isEmpty          -- a dropped code point writes nothing and flags nothing

/-- output for a decoded escape in `_do_quote` -/
def cEscOut (t : QTab) (v : Nat) : Str :=
  if v < 128 ∧ t.prot v = true then pct v
  else if v < 128 ∧ t.safe v = true then [v]
  else pct v

def cEscChanged (t : QTab) (v d1 d2 : Nat) : Bool :=
  if v < 128 ∧ t.prot v = true then true
  else if v < 128 ∧ t.safe v = true then true
  else isLowerHex d1 || isLowerHex d2

def cOut (t : QTab) : Str → Str
  | [] => []
  | c :: rest =>
    if c = 37 ∧ t.requote = true then
      match h : takeEscape restoreCh rest with
      | some (v, _, _, rest') => cEscOut t v ++ cOut t rest'
      | none => cWriteOut t 37 ++ cOut t rest
    else cWriteOut t c ++ cOut t rest
termination_by l => l.length
decreasing_by
  all_goals simp_wf
  all_goals (try have := takeEscape_length h)
  all_goals omega

def cChanged (t : QTab) : Str → Bool
  | [] => false
  | c :: rest =>
    if c = 37 ∧ t.requote = true then
      match h : takeEscape restoreCh rest with
      | some (v, d1, d2, rest') => cEscChanged t v d1 d2 || cChanged t rest'
      | none => cWriteChanged t 37 || cChanged t rest
    else cWriteChanged t c || cChanged t rest
termination_by l => l.length
decreasing_by
  all_goals simp_wf
  all_goals (try have := takeEscape_length h)
  all_goals omega

/-- the fast path of `_do_quote_or_skip` -/
def allSafe (t : QTab) (s : Str) : Bool := s.all (fun c => decide (c < 128) && t.safe c)

def quoteC (t : QTab) (s : Str) : Str :=
  let v := stripSurr s
  if allSafe t v then v
  else if cChanged t v then cOut t v else v

inductive Backend where | py | c
  deriving Repr, DecidableEq

def quote (b : Backend) (t : QTab) (s : Str) : Str :=
  match b with
  | .py => quotePy t s
  | .c => quoteC t s

end Yarl
