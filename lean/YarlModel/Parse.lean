/-
  Parse.lean — `yarl/_parse.py`: split_url, _check_netloc, split_netloc,
  unsplit_result, make_netloc.
-/
import YarlModel.Tables
namespace Yarl

/-- Third-party / Unicode-database behaviour enters the model only through
    these parameters.  `none` is "the harness has not supplied this entry"
    (the driver then asks for it); theorems take the needed facts as hypotheses. -/
structure Oracles where
  /-- `unicodedata.normalize("NFKC", s)` -/
  nfkc : Str → Option Str
  /-- `idna.encode(host, uts46=True).decode("ascii")`, `none` inside = UnicodeError -/
  idnaEnc : Str → Option (Option Str)
  /-- `host.encode("idna").decode("ascii")` (stdlib codec), `none` inside = UnicodeError -/
  idnaEncStd : Str → Option (Option Str)
  /-- `idna.decode(raw.encode("ascii"))`, `none` inside = UnicodeError -/
  idnaDec : Str → Option (Option Str)
  /-- `raw.encode("ascii").decode("idna")`, `none` inside = UnicodeError -/
  idnaDecStd : Str → Option (Option Str)
  /-- `str.isdigit()` for one non-ASCII character -/
  isDigitU : Nat → Option Bool
  /-- `int(s)` for a string containing non-ASCII characters; `none` inside = ValueError -/
  intU : Str → Option (Option Int)
  /-- `str.isprintable()` for one non-ASCII character -/
  isPrintableU : Nat → Option Bool
  /-- `str.lower()` for a string containing non-ASCII characters -/
  lowerU : Str → Option Str

def Oracles.empty : Oracles :=
  { nfkc := fun _ => none, idnaEnc := fun _ => none, idnaEncStd := fun _ => none,
    idnaDec := fun _ => none, idnaDecStd := fun _ => none, isDigitU := fun _ => none,
    intU := fun _ => none, isPrintableU := fun _ => none, lowerU := fun _ => none }

abbrev R := Except PyErr

def ask {α} (fn : String) (arg : Str) : Option α → R α
  | some a => .ok a
  | none => .error (.oracleMiss fn arg)

structure Parts where
  scheme : Str
  netloc : Str
  path : Str
  query : Str
  fragment : Str
  deriving Repr, DecidableEq, Inhabited

/-- `url.lstrip(WHATWG_C0_CONTROL_OR_SPACE)` then removal of tab/CR/LF -/
def cleanUrl (s : Str) : Str :=
  (lstripSet Gen.stripSet s).filter (fun c => !mem c Gen.removeSet)

/-- the scheme scan of `split_url`: `(scheme, rest)` -/
def splitScheme (url : Str) : Str × Str :=
  match find 58 url with
  | some i =>
    if 0 < i ∧ (url.take i).all (fun c => mem c Gen.schemeChars) then
      (lower (url.take i), url.drop (i + 1))
    else ([], url)
  | none => ([], url)

/-- position of the earliest of `/ ? #` in a string (the `for c in delim_chars` loop) -/
def authorityEnd : Str → Nat
  | [] => 0
  | c :: rest => if c = 47 ∨ c = 63 ∨ c = 35 then 0 else authorityEnd rest + 1

/-- `re.match(r"\Av[a-fA-F0-9]+\..+\Z", bracketed_host)` -/
def ipvFutureOk (bh : Str) : Bool :=
  match bh with
  | 118 :: rest =>
    let hexrun := rest.takeWhile isHexC
    let after := rest.dropWhile isHexC
    match after with
    | 46 :: tail => !hexrun.isEmpty && !tail.isEmpty
    | _ => false
  | _ => false

/-- the bracket checks on the netloc -/
def checkBrackets (netloc : Str) : R Unit :=
  let hasL := mem 91 netloc
  let hasR := mem 93 netloc
  if (hasL && !hasR) || (hasR && !hasL) then .error .valueError
  else if hasL then
    let bh := (partition 93 (partition 91 netloc).2.2).1
    if bh.take 1 = [118] then
      if ipvFutureOk bh then .ok () else .error .valueError
    else if !mem 58 bh then .error .valueError
    else .ok ()
  else .ok ()

/-- `_check_netloc` (only called for a non-ASCII netloc) -/
def checkNetloc (o : Oracles) (netloc : Str) : R Unit := do
  let n := netloc.filter (fun c => c ≠ 64 ∧ c ≠ 58 ∧ c ≠ 35 ∧ c ≠ 63 ∧ c ≠ 91 ∧ c ≠ 93)
  let nn ← ask "nfkc" n (o.nfkc n)
  if n = nn then .ok ()
  else if nn.any (fun c => c = 47 ∨ c = 63 ∨ c = 35 ∨ c = 64 ∨ c = 58 ∨ c = 91 ∨ c = 93) then .error .valueError
  else .ok ()

/-- `split_url` -/
def splitUrl (o : Oracles) (s : Str) : R Parts := do
  let url := cleanUrl s
  let (scheme, url) := splitScheme url
  let hasHash := mem 35 url
  let hasQ := mem 63 url
  let (netloc, url) ←
    (if url.take 2 = [47, 47] then do
      let body := url.drop 2
      let d := authorityEnd body
      let netloc := body.take d
      checkBrackets netloc
      pure (netloc, body.drop d)
    else pure ([], url) : R (Str × Str))
  let (url, fragment) := if hasHash then let p := partition 35 url; (p.1, p.2.2) else (url, [])
  let (url, query) := if hasQ then let p := partition 63 url; (p.1, p.2.2) else (url, [])
  if !netloc.isEmpty && !isAscii netloc then checkNetloc o netloc
  pure { scheme := scheme, netloc := netloc, path := url, query := query, fragment := fragment }

/-- `int(port_str)` (ASCII natively, otherwise through the oracle) -/
def pyInt (o : Oracles) (s : Str) : R (Option Int) :=
  if isAscii s then .ok (pyIntAscii s) else ask "intU" s (o.intU s)

structure NetlocParts where
  user : Option Str
  password : Option Str
  host : Option Str
  port : Option Nat
  deriving Repr, DecidableEq

def orNone (s : Str) : Option Str := if s.isEmpty then none else some s

/-- `split_netloc` -/
def splitNetloc (o : Oracles) (netloc : Str) : R NetlocParts := do
  let (username, password, hostinfo) :=
    if !mem 64 netloc then ((none : Option Str), (none : Option Str), netloc)
    else
      let (userinfo, _, hostinfo) := rpartition 64 netloc
      let (u, havePw, pw) := partition 58 userinfo
      (some u, if havePw then some pw else none, hostinfo)
  let (hostname, portStr) :=
    if mem 91 hostinfo then
      let bracketed := (partition 91 hostinfo).2.2
      let (hostname, _, afterB) := partition 93 bracketed
      (hostname, (partition 58 afterB).2.2)
    else
      let (hostname, _, p) := partition 58 hostinfo
      (hostname, p)
  let user := username.bind orNone
  if portStr.isEmpty then
    pure { user := user, password := password, host := orNone hostname, port := none }
  else
    match ← pyInt o portStr with
    | none => .error .valueError
    | some p =>
      if 0 ≤ p ∧ p ≤ 65535 then
        pure { user := user, password := password, host := orNone hostname, port := some p.toNat }
      else .error .valueError

/-- `unsplit_result` -/
def unsplitResult (scheme netloc url query fragment : Str) : Str :=
  let url :=
    if !netloc.isEmpty || (!scheme.isEmpty && Gen.usesAuthority.contains scheme) || url.take 2 = [47, 47] then
      if !url.isEmpty && url.take 1 ≠ [47] then
        if !scheme.isEmpty then scheme ++ [58, 47, 47] ++ netloc ++ [47] ++ url
        else scheme ++ [58] ++ url
      else
        if !scheme.isEmpty then scheme ++ [58, 47, 47] ++ netloc ++ url
        else [47, 47] ++ netloc ++ url
    else if !scheme.isEmpty then scheme ++ [58] ++ url
    else url
  let url := if !query.isEmpty then url ++ [63] ++ query else url
  if !fragment.isEmpty then url ++ [35] ++ fragment else url

/-- `make_netloc(user, password, host, port, encode)`; `q` is `QUOTER` on the
    active backend (only used when `encode`) -/
def makeNetloc (q : Str → Str) (user password host : Option Str) (port : Option Nat) (encode : Bool) : Str :=
  match host with
  | none => []
  | some host =>
    let ret := match port with
      | some p => host ++ [58] ++ natToStr p
      | none => host
    match user, password with
    | none, none => ret
    | _, some pw =>
      let u : Str := match user with
        | none => []
        | some u => if u.isEmpty then [] else if encode then q u else u
      let pw := if encode then q pw else pw
      let user := u ++ [58] ++ pw
      if user.isEmpty then ret else user ++ [64] ++ ret
    | some u, none =>
      let u := if !u.isEmpty && encode then q u else u
      if u.isEmpty then ret else u ++ [64] ++ ret

end Yarl
